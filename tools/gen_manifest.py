#!/venv/bin/python
"""Regenerate /verif/MANIFEST.json from the property registry (dsim.props) and the texts below."""
import json
import os
import sys

VERIF = os.path.dirname(os.path.dirname(os.path.abspath(__file__)))
sys.path.insert(0, VERIF)
from dsim import props, manifest_texts as T  # noqa

NA_FIXED = {
    'C02': 'quantified over inputs only: the outcome is a pure function of one in-order word of a content model; there is no schedule, fault, clock or evolving multi-party state for a simulator to vary (in-order words are one workload shape of the C12/C06 runs, but C02 itself is not decided by simulation)',
    'C03': 'static translation-equivalence claim (generated classes vs XSD, language equivalence decided on automata): nothing executes over time; simulation samples and cannot decide equivalence',
    'C05': 'lexical validity of single values against simple types: a pure function of (type, value); no schedule, fault or history in it',
    'C08': 'a pure function of the emitted document with no fault in it; the file round trip *with* faults is C09/C17, whose fault-free configuration re-parses every written document',
}


def main():
    checks = []
    for pid in props.claimed():
        P = props.get(pid)
        t = T.TEXT[pid]
        checks.append({
            'property_id': pid,
            'quick_cmd': './check %s quick' % pid,
            'thorough_cmd': './check %s thorough' % pid,
            'evidence_file': '/verif/evidence/%s.json' % pid,
            'replay_cmd_template': './check replay {path}',
            'engine': 'dsim',
            'level_claimed': {'category': P.level, 'text': t['level'], 'design_ref': t['ref']},
            'level_note': t['note'],
            'technique': t['technique'],
        })
    na = [{'property_id': k, 'reason': v} for k, v in sorted(NA_FIXED.items())]
    all_ids = [json.loads(l)['id'] for l in open(os.path.join(VERIF, 'properties.jsonl'))]
    for pid in all_ids:
        if pid not in props.claimed() and pid not in NA_FIXED:
            na.append({'property_id': pid, 'reason': T.PENDING.get(pid, 'no sound check built for it in this framework yet (see DESIGN.md section 6); not claimed')})
    na.sort(key=lambda x: x['property_id'])
    m = {
        'version': 1,
        'setup_cmd': './check setup',
        'hooks': {
            'guard': 'MUSICXML_VERIF',
            'enable': 'no hook is needed: every seam (builtins.open, sys.stdout, sys.settrace, sys.monitoring, fork) is reachable from outside; checks import /repo as it is',
            'baseline_off_cmd': 'cd /repo && /venv/bin/python -m pytest -ra -q -p no:cacheprovider --timeout=900 --continue-on-collection-errors',
            'source_commits': [],
            'add_only': True,
        },
        'engines': [{
            'name': 'dsim', 'path': '/verif/dsim',
            'serves_properties': props.claimed(),
            'kind_free_text': 'deterministic simulation with fault injection: seeded cooperative scheduler over generated actor programs, every run in a fresh fork of a cold zygote, SimFS / stream / thread-baton seams, reference model from the pinned XSD, twin runs, ddmin, replay files',
        }],
        'checks': checks,
        'not_applicable': na,
        'notes': T.NOTES,
    }
    with open(os.path.join(VERIF, 'MANIFEST.json'), 'w') as f:
        json.dump(m, f, indent=1)
        f.write('\n')
    print('MANIFEST.json:', len(checks), 'checks,', len(na), 'not applicable')


if __name__ == '__main__':
    main()

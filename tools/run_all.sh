#!/bin/bash
# run every claimed check once; print one summary line per check
tier=${1:-quick}
cd /verif
for p in $(/venv/bin/python -c "import sys; sys.path.insert(0,'/verif'); from dsim import props; print(' '.join(props.claimed()))"); do
  s=$(date +%s)
  out=$(./check $p $tier 2>&1); rc=$?
  e=$(( $(date +%s) - s ))
  echo "$p rc=$rc ${e}s $(echo "$out" | grep -c '^KNOWN-FINDING') known, $(echo "$out" | grep -c '^VIOLATION') violations :: $(echo "$out" | grep '^dsim' | cut -c1-150)"
  echo "$out" | grep -E '^VIOLATION|^  clause|HARNESS' | cut -c1-300
done

#!/bin/bash
# run every claimed check once; print one summary line per check (works from any copy of the tree)
tier=${1:-quick}
here="$(cd "$(dirname "$0")/.." && pwd)"
cd "$here"
for p in $(/venv/bin/python -c "import sys; sys.path.insert(0,'$here'); from dsim import props; print(' '.join(props.claimed()))"); do
  s=$(date +%s)
  out=$(./check $p $tier 2>&1); rc=$?
  e=$(( $(date +%s) - s ))
  echo "$p rc=$rc ${e}s $(echo "$out" | grep -c '^KNOWN-FINDING') known, $(echo "$out" | grep -c '^VIOLATION') violations :: $(echo "$out" | grep '^dsim' | cut -c1-150)"
  echo "$out" | grep -E '^VIOLATION|^  clause|HARNESS' | cut -c1-300
done

#!/bin/bash
# development: run all quick checks for VERIF_SEED in [a,b]; print only alarms
a=${1:-5}; b=${2:-10}; tier=${3:-quick}
for s in $(seq $a $b); do
  echo "== seed $s $(date +%T)"
  VERIF_SEED=$s ./tools/run_all.sh $tier 2>&1 | grep -E 'rc=[12]|clause=|HARNESS' | cut -c1-600
done

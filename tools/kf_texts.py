"""Reviewed descriptions of the known findings (genuine defects of the pinned library that are not
repaired by a small `fix:` commit).  Key: (property, oracle clause)."""

MATCHER_GHOST = ('XMLChildContainer.add_element attaches the child to the leaf (XSDElement.add_xml_element) before '
                 '_update_requirements_in_path / max_is_reached may raise')
REPLACE_SLOT = 'XMLElement.replace_child swaps the new child into the old child\'s leaf without a name check and through a possibly stale parent_xsd_element'
REMOVE_FLAGS = 'XMLElement.remove clears chosen_child only on the immediate parent; force_validate / requirements_fulfilled set at insertion are never cleared; duplicated branches are pruned heuristically'
CHOICE = 'XMLChildContainer.add_element / select_valid_leaves: first-fit placement commits a choice branch; later children that need another branch are rejected or re-homed by _check_choices_intelligently'
LINKATTR = 'XSDAttribute.xsd_tree setter: `NotImplementedError(ref)` is constructed but not raised for xlink:* references, leaving an attribute object without a declaration (name/type/is_required then fail with AttributeError on None)'

TEXTS = {
    # ---------------- C01
    ('C01', 'invalid-sequence'): {'site': MATCHER_GHOST + '; ' + REPLACE_SLOT,
        'what': 'to_string() succeeds with a child sequence the content model rejects (e.g. two group-barline in part-group after a rejected add left a ghost child; a replaced child of another class sitting in the old slot)'},
    ('C01', 'missing-required-emitted'): {'site': REMOVE_FLAGS + '; _check_if_choice_requires_elements',
        'what': 'to_string() succeeds although a required child is missing (e.g. empty direction-type after add/failed forward add/remove; required choice no longer enforced once its flags were set)'},
    ('C01', 'wrong-child-emitted'): {'site': REPLACE_SLOT,
        'what': 'to_string() emits a child that is not in the element\'s alphabet (replace_child accepts any class)'},
    # ---------------- C04
    ('C04', 'declared-valid-rejected'): {'site': LINKATTR + '; XMLElement.__setattr__ routes the reserved name `name` to the read-only property; xml:space has no type attribute (KeyError)',
        'what': 'schema-declared attributes cannot be assigned: every attribute of elements using link-attributes (AttributeError on None), the attribute called name by dot assignment, xml:space (KeyError), source (xs:anyURI class missing, NameError)'},
    ('C04', 'required-not-enforced'): {'site': 'XSDAttribute.xsd_tree setter replaces the xml:lang reference by a hard-coded declaration that drops use="required"',
        'what': 'to_string() serialises lyric-language without its required xml:lang'},
    ('C04', 'serialised-name-differs'): {'site': 'XSDAttribute.xsd_tree setter maps xml:lang / xml:space to the unprefixed names lang / space; XMLElement._create_et_xml_element writes keys verbatim',
        'what': 'xml:lang is accepted as lang and serialised as lang="..." (no xml: prefix), xml:space likewise'},
    ('C04', 'serialised-set-differs'): {'site': 'XMLElement.__setattr__: names in _PROPERTIES (level, content, ...) bypass the attribute path',
        'what': 'consequence of undeclared-accepted / reserved names: an assignment that returned normally is not in the output'},
    ('C04', 'undeclared-accepted'): {'site': 'XMLElement.__setattr__: names in _PROPERTIES (level, content, name, ...) are set as plain Python attributes without any check',
        'what': 'dot assignment of an undeclared attribute whose name is a Python-side reserved name (level, content) succeeds silently'},
    ('C04', 'stored-after-failure'): {'site': 'XMLElement._set_attributes pops None-valued keys before validating the others',
        'what': 'a failed multi-key assignment may already have removed attributes'},
    # ---------------- C06
    ('C06', 'ordered-view-extra'): {'site': MATCHER_GHOST,
        'what': 'a rejected add_child (ValueError / AnotherChosenChild raised after the child was attached to its leaf, or a forward add beyond maxOccurs) leaves a ghost child in the schema-ordered view'},
    ('C06', 'ordered-view-lost'): {'site': REMOVE_FLAGS + '; DuplicationXSDSequence pruning in remove(); _check_choices_intelligently re-homing',
        'what': 'children disappear from the schema-ordered view after removal from a duplicated particle or after intelligent-choice re-homing (harmony, interchangeable, metronome, note tie/tie/grace, ...)'},
    ('C06', 'output-count-differs'): {'site': MATCHER_GHOST + '; ' + REMOVE_FLAGS,
        'what': 'serialised output has a child more or less than were added minus removed (ghost or lost child)'},
    ('C06', 'insertion-view-differs'): {'site': 'XMLElement.remove / replace_child update _unordered_children before the matcher may raise',
        'what': 'a failing remove/replace has already edited the insertion-ordered list'},
    ('C06', 'parent-link-wrong'): {'site': 'XMLElement.replace_child / intelligent re-homing',
        'what': 'a held child does not report the element as parent'},
    # ---------------- C07
    ('C07', 'dead-end-accepted'): {'site': MATCHER_GHOST + '; max_is_reached is evaluated per leaf after duplication of an unbounded ancestor',
        'what': 'add_child accepts a child that cannot occur with those already present in any valid arrangement (after a ghost child; in duplicated particles)'},
    # ---------------- C10
    ('C10', 'state-changed-by-failed-call'): {'site': MATCHER_GHOST + '; duplication happens before MaxOccurs/AnotherChosenChild is raised; remove()/replace_child edit _unordered_children first',
        'what': 'a raising add_child/replace_child/remove leaves the element changed: ghost child in the ordered view, duplicated particle, changed required-children verdict or acceptance vector'},
    ('C10', 'later-outcome-differs-after-failed-call'): {'site': MATCHER_GHOST + '; check_required_elements rewrites flags on every (failing) to_string()',
        'what': 'operations after a failed call behave differently from the same history without the failed call (different serialisation / acceptance / verdict)'},
    # ---------------- C11
    ('C11', 'spurious-required'): {'site': REMOVE_FLAGS,
        'what': 'after removing an optional child its siblings are reported as required (force_validate stays set): e.g. rest after display-step removed, barline after footnote removed'},
    ('C11', 'missing-required'): {'site': REMOVE_FLAGS,
        'what': 'after removal fewer children are reported missing than on a fresh element (alternatives of the abandoned branch are not offered again)'},
    ('C11', 'required-differs'): {'site': REMOVE_FLAGS,
        'what': 'after removal the set of children reported missing is incomparable with that of a fresh element'},
    ('C11', 'accepts-less'): {'site': REMOVE_FLAGS + '; duplicated branches left behind',
        'what': 'a child a fresh element with the same children accepts is rejected after a removal'},
    ('C11', 'accepts-more'): {'site': REMOVE_FLAGS,
        'what': 'after a removal the element accepts a child that a fresh element with the same children rejects'},
    ('C11', 'order-differs'): {'site': REMOVE_FLAGS + '; ' + MATCHER_GHOST,
        'what': 'after a removal the serialisation differs from that of a fresh element with the remaining children (ghost child / different grouping)'},
    ('C11', 'verdict-differs'): {'site': REMOVE_FLAGS,
        'what': 'after a removal to_string() fails with another exception type / succeeds where the fresh element fails or vice versa'},
    # ---------------- C12
    ('C12', 'compatible-child-rejected'): {'site': CHOICE,
        'what': 'a child that can still be arranged with those present is rejected (credit: credit-image then bookmark; harmony: second chord kind / function after root,root -> IndexError; notehead-text: second accidental-text -> ValueError; score-partwise after replace)'},
    ('C12', 'unique-arrangement-rejected'): {'site': CHOICE,
        'what': 'a permutation of a collection with exactly one valid arrangement is rejected'},
    ('C12', 'unique-arrangement-misordered'): {'site': CHOICE,
        'what': 'a permutation of a collection with exactly one valid arrangement is accepted but ordered differently (credit: bookmark after credit-words)'},
    ('C12', 'same-name-order-changed'): {'site': CHOICE + '; duplicated leaves are filled first-fit',
        'what': 'same-named children do not keep their insertion order in the schema-ordered view'},
    # ---------------- C14
    ('C14', 'copy-raised'): {'site': 'XMLElement.__deepcopy__ re-adds the children through add_child in get_children() order; the matcher rejects its own arrangement (' + CHOICE + ')',
        'what': 'copy.deepcopy() of an element the library accepted raises a matcher exception'},
    ('C14', 'copy-differs'): {'site': 'XMLElement.__deepcopy__ rebuilds the copy through add_child: the source\'s matcher state (spurious / missing requirements after removals, ghost or re-homed children) is not reproduced',
        'what': 'the copy serialises where the original reports required children (or vice versa), or without the source\'s ghost child'},
    ('C14', 'copy-not-independent'): {'site': 'XMLElement.__deepcopy__',
        'what': 'copy lineage run alone differs from the interleaved run'},
    ('C14', 'original-changed-by-copy'): {'site': 'XMLElement.__deepcopy__ calls get_children()/add_child on shared state',
        'what': 'deepcopy changes the original'},
    # ---------------- C15
    ('C15', 'attr-read-wrong'): {'site': LINKATTR + '; XMLElement.__getattr__ consults get_xsd_attributes()',
        'what': 'reading an unset declared attribute of an element whose type uses link-attributes raises AttributeError about None instead of returning None'},
    ('C15', 'dot-read-raises'): {'site': LINKATTR + '; XMLElement.__getattr__',
        'what': 'e.xml_x for an allowed but unset child raises on elements whose type uses link-attributes'},
    ('C15', 'surfaces-differ-rejection'): {'site': 'XMLElement.__setattr__ (_PROPERTIES bypass for name/level/content); __setattr__ maps XSDWrongAttribute to AttributeError but the constructor path validates differently',
        'what': 'an attribute accepted as constructor keyword is rejected by dot assignment or vice versa (attribute `name`; reserved names)'},
    ('C15', 'surfaces-differ-output'): {'site': 'XMLElement._convert_attribute_to_child vs add_child/replace_child; consequence of surfaces-differ-rejection',
        'what': 'the same abstract step leaves different elements on the two surfaces'},
    ('C15', 'dot-read-wrong-child'): {'site': 'XMLElement.__getattr__ scans the insertion-ordered list',
        'what': 'e.xml_x returns something other than the child serialisation shows'},
    # ---------------- C16
    ('C16', 'read-changed-later-result'): {'site': 'XMLChildContainer.check_required_elements / _check_if_*_requires_elements rewrite requirements_fulfilled on every to_string()',
        'what': 'a plain to_string() between mutations changes a later verdict (listen: add, add, to_string, remove, replace, xml_assess=None -> required children reported; without the read it serialises)'},
    ('C16', 'read-changed-later-result[ic]'): {'site': 'XMLChildContainer._check_choices_intelligently replaces the container and re-homes children during to_string(intelligent_choice=True)',
        'what': 'to_string(intelligent_choice=True) between mutations changes later results (children lost from the ordered view, different verdicts)'},
    ('C16', 'repeat-differs[ic]'): {'site': 'XMLChildContainer._check_choices_intelligently',
        'what': 'two consecutive to_string(intelligent_choice=True) calls return different results'},
    # ---------------- C19
    ('C19', 'internal:AttributeError'): {'site': LINKATTR,
        'what': "AttributeError: 'NoneType' object has no attribute 'get_attributes' from constructors / to_string / attribute access of every element whose type uses link-attributes (link, bookmark?, opus, part-link, instrument-link, ...)"},
    ('C19', 'internal:IndexError'): {'site': 'XMLChildContainer.add_element: `same_name_leaves[forward]` and `selected_same_name_leaves_max_not_reached[0]` index lists that may be empty / shorter after duplication or re-homing',
        'what': 'IndexError out of add_child / dot assignment / to_string(intelligent_choice=True) (harmony, lyric, direction-type, forward index out of range)'},
    ('C19', 'internal:NotImplementedError'): {'site': 'xmlchildcontainer._check_if_choice_requires_elements: `raise NotImplementedError(child)` for more than one element in a required choice leaf',
        'what': 'NotImplementedError from the final check (direction-type with two coda/segno/..., after a ghost child)'},
    ('C19', 'internal:NameError'): {'site': 'XSDAttribute.type_: eval of a class name that does not exist (XSDSimpleTypeAnyURI)',
        'what': 'NameError when the attribute `source` (xs:anyURI) is assigned'},
    ('C19', 'internal:KeyError'): {'site': 'XSDAttribute.type_: the hard-coded xml:space declaration has no type attribute',
        'what': 'KeyError when xml:space is assigned'},
}

PARSER_ATTR = 'parser._et_xml_to_music_xml applies attributes with setattr(): namespaced keys arrive as {uri}local and are rejected; `name` collides with the read-only Python property; link-attributes / xs:anyURI attributes cannot be assigned at all'
TEXTS.update({
    ('C09', 'valid-file-rejected'): {'site': PARSER_ATTR + '; children go through the same matcher as the builder API (' + CHOICE + ')',
        'what': 'schema-valid files (validated with xmllint during development) are rejected: any xml:lang / xml:space / xlink:* attribute, name=..., source=..., elements using link-attributes, several harmony chords, some part-list / lyric arrangements'},
    ('C09', 'order-altered'): {'site': CHOICE + ' (first-fit grouping of same-named children in repeated sequences)',
        'what': 'repeated groups are regrouped on the way through the parser: score-part midi-device / midi-instrument pairs come out in a different order'},
    ('C09', 'tail-dropped'): {'site': 'parser._et_xml_to_music_xml reads node.text only',
        'what': 'non-blank tail text (character data between child elements) of the input is silently dropped'},
    ('C09', 'text-dropped'): {'site': 'parser._et_xml_to_music_xml / complex types without simple content accept any value but the text is stripped',
        'what': 'character data on an element is dropped'},
})
TEXTS.update({
    ('C09', 'element-dropped'): {'site': 'parser: class lookup by eval(convert_to_xml_class_name(tag)) capitalises each hyphen-separated part, so `Part-group` and `part-group` map to the same class',
        'what': 'an element whose (damaged) name differs from a schema name only in the case of a leading letter is read as that schema element: the input element name is silently altered'},
})
TEXTS.update({
    ('C12', 'unique-arrangement-not-serialised'): {'site': '_check_if_choice_requires_elements raises NotImplementedError for two elements in a required choice leaf; first-fit placement (' + CHOICE + ')',
        'what': 'a complete collection with exactly one valid arrangement is accepted but to_string() fails (direction-type segno,segno -> NotImplementedError; lyric with only extend -> XMLElementChildrenRequired)'},
    ('C12', 'unique-arrangement-not-serialised[ic]'): {'site': '_check_if_choice_requires_elements / _check_choices_intelligently',
        'what': 'the same with to_string(intelligent_choice=True)'},
})
TEXTS.update({
    ('C06', 'replacement-not-in-place'): {'site': REPLACE_SLOT + ' (stale parent_xsd_element after intelligent-choice re-homing or duplication)',
        'what': 'replace_child swaps the new child into a leaf of a discarded container copy: the schema-ordered view keeps the old child (and lacks the new one) although the call returned normally'},
})

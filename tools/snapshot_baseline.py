#!/venv/bin/python
"""Freeze the library as it is in /repo (HEAD working tree) into /verif/baseline/ and record it in
known_findings.json.  Run after each `fix:` commit; never at check time."""
import hashlib
import io
import json
import os
import subprocess
import sys
import tarfile

VERIF = os.path.dirname(os.path.dirname(os.path.abspath(__file__)))
REPO = os.environ.get('DSIM_REPO', '/repo')


def main():
    sha = subprocess.check_output(['git', '-C', REPO, 'rev-parse', '--short', 'HEAD'], text=True).strip()
    dirty = subprocess.check_output(['git', '-C', REPO, 'status', '--porcelain', '--', 'musicxml'], text=True).strip()
    if dirty:
        print('refusing: /repo/musicxml has uncommitted changes', file=sys.stderr)
        return 1
    files = subprocess.check_output(['git', '-C', REPO, 'ls-files', 'musicxml'], text=True).split('\n')
    keep = [f for f in files if f and (f.endswith('.py') or f.endswith('.xsd')) and '/tests/' not in f
            and '/profiler/' not in f and not f.startswith('musicxml/parser/test')]
    buf = io.BytesIO()
    with tarfile.open(fileobj=buf, mode='w:gz', format=tarfile.PAX_FORMAT) as t:
        for f in sorted(keep):
            ti = t.gettarinfo(os.path.join(REPO, f), arcname=f)
            ti.mtime = 0
            ti.uid = ti.gid = 0
            ti.uname = ti.gname = ''
            with open(os.path.join(REPO, f), 'rb') as fh:
                t.addfile(ti, fh)
    data = buf.getvalue()
    os.makedirs(os.path.join(VERIF, 'baseline'), exist_ok=True)
    for old in os.listdir(os.path.join(VERIF, 'baseline')):
        os.remove(os.path.join(VERIF, 'baseline', old))
    name = 'baseline/musicxml-%s.tar.gz' % sha
    with open(os.path.join(VERIF, name), 'wb') as f:
        f.write(data)
    kfp = os.path.join(VERIF, 'known_findings.json')
    kf = json.load(open(kfp)) if os.path.exists(kfp) else {'baseline': None, 'findings': [], 'fixed': []}
    kf['baseline'] = {'commit': sha, 'file': name, 'sha256': hashlib.sha256(data).hexdigest(), 'files': len(keep)}
    with open(kfp, 'w') as f:
        json.dump(kf, f, indent=1)
        f.write('\n')
    print('snapshot', name, len(data), 'bytes', len(keep), 'files')
    return 0


if __name__ == '__main__':
    sys.exit(main())

#!/venv/bin/python
"""Markdown table of the seeded changes and which check caught them (from seeded/*/sens_result.json)."""
import glob, json, os
VERIF = os.path.dirname(os.path.dirname(os.path.abspath(__file__)))
rows = []
for d in sorted(glob.glob(os.path.join(VERIF, 'seeded', '*'))) + sorted(glob.glob(os.path.join(VERIF, 'tools', 'mutants', '*'))):
    mp = os.path.join(d, 'meta.json')
    rp = os.path.join(d, 'sens_result.json')
    if not os.path.exists(mp) or not os.path.exists(rp) or d.endswith('neutral'):
        continue
    m = json.load(open(mp)); r = json.load(open(rp))
    name = os.path.basename(d)
    what = ''
    np_ = os.path.join(d, 'notes.md')
    if os.path.exists(np_):
        txt = [l.strip() for l in open(np_).read().split('\n') if l.strip() and not l.startswith('#')]
        what = (txt[0] if txt else '')[:150]
    else:
        what = m.get('needs', '')
    for p, v in r.items():
        clause = ''
        for l in v.get('lines', []):
            if 'clause=' in l:
                clause = l.split('clause=')[1].split(' ')[0]
                break
        rows.append('| %s | %s | %s | %s | %s |' % (name, p, 'caught' if v['rc'] == 1 else ('HARNESS' if v['rc'] == 2 else 'missed'), clause, what.replace('|', '/')))
print('| change | check | result | clause | what it is / needs |\n|---|---|---|---|---|')
print('\n'.join(rows))

#!/bin/bash
# run EVERY claimed quick check on every behaviour-preserving change (scratch worktree); all must exit 0
cd /verif
for d in tools/mutants/neutral/*/; do

  DSIM_SCALE=0.4 tools/sens.py $d --scratch --all 2>&1 | grep -E "rc=" | awk '{print $1, $2, $3}' | tr '\n' ';'
  echo
done

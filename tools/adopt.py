#!/venv/bin/python
"""Development tool: adopt reviewed findings into known_findings.json.

  tools/adopt.py            adopt, for every (property, clause) described in tools/kf_texts.py, the smallest
                            replay under /verif/replays as witness (copied to /verif/known/)

Never run by a check.  A finding is listed only after a human decided it is a genuine defect of the
library (see DESIGN.md section 5); the texts live in kf_texts.py."""
import glob
import json
import os
import re
import shutil
import sys

VERIF = os.path.dirname(os.path.dirname(os.path.abspath(__file__)))
sys.path.insert(0, os.path.join(VERIF, 'tools'))
import kf_texts  # noqa


def slug(s):
    return re.sub(r'[^A-Za-z0-9]+', '-', s).strip('-')


def main():
    kfp = os.path.join(VERIF, 'known_findings.json')
    kf = json.load(open(kfp))
    have = {(f['property'], f['clause']): f for f in kf['findings']}
    reps = {}
    for p in glob.glob(os.path.join(VERIF, 'replays', '*.json')):
        r = json.load(open(p))
        key = (r['property'], r['clause'])
        n = len(r.get('ops') or []) + (0 if not r.get('schedule') else 1)
        if key not in reps or n < reps[key][0]:
            reps[key] = (n, p, r)
    os.makedirs(os.path.join(VERIF, 'known'), exist_ok=True)
    for key, txt in sorted(kf_texts.TEXTS.items()):
        prop, clause = key
        if key in have:
            have[key].update({'site': txt['site'], 'what': txt['what']})
            continue
        if key not in reps:
            print('no replay yet for', key)
            continue
        n, p, r = reps[key]
        name = 'known/KF-%s-%s.json' % (prop, slug(clause))
        shutil.copy(p, os.path.join(VERIF, name))
        elems = set()
        d = (r.get('observation') or {}).get('detail') or {}
        if isinstance(d, dict) and d.get('elem'):
            elems.add(d['elem'])
        kf['findings'].append({'id': 'KF-%s-%s' % (prop, slug(clause)), 'property': prop, 'clause': clause,
                               'site': txt['site'], 'what': txt['what'], 'witness': name,
                               'seen_in_types': sorted(elems)})
        print('adopted', key, '<-', os.path.basename(p), n, 'ops')
    kf['findings'].sort(key=lambda f: (f['property'], f['clause']))
    with open(kfp, 'w') as f:
        json.dump(kf, f, indent=1)
        f.write('\n')
    missing = sorted(set(reps) - set(kf_texts.TEXTS))
    for m in missing:
        print('UNREVIEWED clause with a replay:', m)


if __name__ == '__main__':
    main()

#!/venv/bin/python
"""Development tool: run N seeded runs of a property's workload (with twins) on /repo, without known-
finding guard and without minimisation, and print per clause: count, shortest violating history."""
import collections
import json
import os
import sys
import concurrent.futures as cf
import multiprocessing

VERIF = os.path.dirname(os.path.dirname(os.path.abspath(__file__)))
sys.path.insert(0, VERIF)
os.environ.setdefault('PYTHONHASHSEED', '0')
from dsim import runner, judges, props  # noqa
from dsim.gen import hash64  # noqa

REPO = os.environ.get('DSIM_REPO', '/repo')


def work(a):
    prop, base, idxs = a
    P = props.get(prop)
    out = []
    for i in idxs:
        seed = hash64(base, prop, i)
        z = runner.zygote(REPO)
        main = z.run({'mode': P.mode, 'property': prop, 'seed': seed, 'index': i, 'cfg': P.cfg.get('quick', {}), 'opts': P.opts})
        _m, viol = judges.evaluate(prop, main['ops'], REPO, P.opts, main=main)
        for v in viol:
            out.append((v['clause'], len(main['ops']), i, seed, v))
    runner.close_all()
    return out


def main():
    prop = sys.argv[1]
    n = int(sys.argv[2])
    base = int(os.environ.get('VERIF_SEED', '0'))
    show = sys.argv[3] if len(sys.argv) > 3 else None
    chunks = [list(range(s, min(n, s + 50))) for s in range(0, n, 50)]
    cnt = collections.Counter()
    best = {}
    elems = collections.defaultdict(set)
    with cf.ProcessPoolExecutor(16, mp_context=multiprocessing.get_context('fork')) as ex:
        for res in ex.map(work, [(prop, base, c) for c in chunks]):
            for clause, nops, i, seed, v in res:
                cnt[clause] += 1
                d = v.get('detail') or {}
                if isinstance(d, dict) and d.get('elem'):
                    elems[clause].add(d['elem'])
                if clause not in best or nops < best[clause][0]:
                    best[clause] = (nops, i, seed, v)
    for c, k in cnt.most_common():
        print(k, c, 'types:', len(elems[c]), 'shortest: index', best[c][1], 'ops', best[c][0])
        if show:
            print('    ', json.dumps(best[c][3].get('detail'), default=str)[:int(show)])


if __name__ == '__main__':
    main()

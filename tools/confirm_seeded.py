#!/venv/bin/python
"""Confirm a sub-agent's seeded change in its scratch worktree and keep it under /verif/seeded/<id>/.

  tools/confirm_seeded.py <property> <m1|m2>

Checks: patch applies to a pristine tree, the pinned test suite still passes (192), the demonstration
fails with the change and passes without it."""
import json
import os
import shutil
import subprocess
import sys

VERIF = os.path.dirname(os.path.dirname(os.path.abspath(__file__)))


def sh(cmd, cwd, env=None):
    e = dict(os.environ)
    if env:
        e.update(env)
    return subprocess.run(cmd, cwd=cwd, capture_output=True, text=True, env=e, timeout=1200)


def main():
    prop, m = sys.argv[1], sys.argv[2]
    wt = os.path.join(os.environ.get('MUT_BASE', '/tmp/mut'), prop)
    src = os.path.join(wt, '_mutants', m)
    patch = os.path.join(src, 'patch.diff')
    res = {'property': prop, 'origin': 'independent sub-agent given only the property text and a scratch worktree'}
    if sh(['git', 'status', '--porcelain', '--untracked-files=no'], wt).stdout.strip():
        sh(['git', 'checkout', '--', '.'], wt)
    env = {'PYTHONPATH': wt, 'PYTHONDONTWRITEBYTECODE': '1'}
    d0 = sh(['/venv/bin/python', os.path.join(src, 'demo.py')], wt, env)
    res['demo_pristine_rc'] = d0.returncode
    a = sh(['git', 'apply', patch], wt)
    if a.returncode != 0:
        print('patch does not apply', a.stderr[:300])
        return 1
    try:
        t = sh(['/venv/bin/python', '-m', 'pytest', '-q', '-p', 'no:cacheprovider'], wt)
        res['tests'] = t.stdout.strip().split('\n')[-1]
        d1 = sh(['/venv/bin/python', os.path.join(src, 'demo.py')], wt, env)
        res['demo_changed_rc'] = d1.returncode
        res['demo_changed_msg'] = (d1.stderr.strip().split('\n') or [''])[-1][:300]
        files = sh(['git', 'diff', '--stat'], wt).stdout.strip().split('\n')
        res['diffstat'] = files[-1].strip()
    finally:
        sh(['git', 'checkout', '--', '.'], wt)
    ok = res['demo_pristine_rc'] == 0 and res['demo_changed_rc'] != 0 and '192 passed' in res['tests']
    res['confirmed'] = ok
    print(json.dumps(res, indent=1))
    if not ok:
        return 1
    dst = os.path.join(VERIF, 'seeded', '%s-%s' % (prop, m))
    os.makedirs(dst, exist_ok=True)
    for f in ('patch.diff', 'demo.py', 'notes.md'):
        if os.path.exists(os.path.join(src, f)):
            shutil.copy(os.path.join(src, f), os.path.join(dst, f))
    notes = open(os.path.join(src, 'notes.md')).read() if os.path.exists(os.path.join(src, 'notes.md')) else ''
    meta = {'property': prop, 'breaks': prop, 'needs_to_manifest': notes.strip()[:1500], 'confirmation': res,
            'what_i_ran': ['git apply patch.diff (scratch worktree)', '/venv/bin/python -m pytest -q -p no:cacheprovider -> ' + res['tests'],
                           'demo.py with the change -> rc %d' % res['demo_changed_rc'], 'demo.py pristine -> rc 0'],
            'run_checks': [prop]}
    with open(os.path.join(dst, 'meta.json'), 'w') as f:
        json.dump(meta, f, indent=1)
    return 0


if __name__ == '__main__':
    sys.exit(main())

#!/bin/bash
# confirm + scratch sensitivity for a list of "<prop> <mN>" pairs (one per line on stdin)
cd /verif
while read p m; do
  [ -z "$p" ] && continue
  if [ ! -f seeded/$p-$m/meta.json ]; then
    tools/confirm_seeded.py $p $m > /tmp/confirm-$p-$m.log 2>&1 || { echo "$p-$m NOT CONFIRMED"; continue; }
  fi
  tools/sens.py seeded/$p-$m --scratch 2>&1 | cut -c1-330
done

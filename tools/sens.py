#!/venv/bin/python
"""Sensitivity harness: apply a seeded change to /repo (git apply), run the named quick checks, undo it
(git checkout -- .) straight afterwards, and report which checks raised a VIOLATION.

  tools/sens.py <dir-with-patch.diff> [--props C06,C10] [--tier quick] [--all]

The change is never committed; the working tree is verified clean before and after."""
import json
import os
import subprocess
import sys
import time

VERIF = os.path.dirname(os.path.dirname(os.path.abspath(__file__)))
REPO = '/repo'


def clean():
    return subprocess.run(['git', '-C', REPO, 'status', '--porcelain', '--untracked-files=no'], capture_output=True, text=True).stdout.strip() == ''


def main():
    args = sys.argv[1:]
    d = args[0]
    props = None
    tier = 'quick'
    if '--props' in args:
        props = args[args.index('--props') + 1].split(',')
    if '--tier' in args:
        tier = args[args.index('--tier') + 1]
    meta = {}
    mp = os.path.join(d, 'meta.json')
    if os.path.exists(mp):
        meta = json.load(open(mp))
    if props is None:
        props = meta.get('run_checks') or [meta.get('property')]
    if '--all' in args:
        sys.path.insert(0, VERIF)
        from dsim import props as P
        props = P.claimed()
    patch = os.path.abspath(os.path.join(d, 'patch.diff'))
    if '--scratch' in args:
        return scratch(d, patch, props, tier)
    if not clean():
        print('refusing: /repo working tree is not clean')
        return 2
    r = subprocess.run(['git', '-C', REPO, 'apply', patch], capture_output=True, text=True)
    if r.returncode != 0:
        print('patch does not apply:', r.stderr[:500])
        return 2
    results = {}
    try:
        for p in props:
            t = time.time()
            env = dict(os.environ)
            c = subprocess.run([os.path.join(VERIF, 'check'), p, tier], capture_output=True, text=True, cwd=VERIF, env=env)
            lines = [l for l in c.stdout.split('\n') if l.startswith('VIOLATION') or l.startswith('  clause=') or 'HARNESS' in l]
            results[p] = {'rc': c.returncode, 'wall': round(time.time() - t, 1), 'lines': lines[:8]}
            print('%s rc=%d %.0fs' % (p, c.returncode, time.time() - t))
            for l in lines[:6]:
                print('   ', l[:260])
    finally:
        subprocess.run(['git', '-C', REPO, 'checkout', '--', '.'], check=True)
    if not clean():
        print('WARNING: /repo not clean after undo')
        return 2
    out = os.path.join(d, 'sens_result.json')
    with open(out, 'w') as f:
        json.dump(results, f, indent=1)
    return 0


def scratch(d, patch, props, tier):
    """Same, on a scratch worktree of /repo under /dev/shm (DSIM_REPO), so that /repo is not touched while
    background runs use it; evidence and replays of these runs go to the scratch area too."""
    import shutil
    name = os.path.basename(os.path.normpath(d))
    base = '/dev/shm/dsim-sens'
    wt = os.path.join(base, name)
    os.makedirs(base, exist_ok=True)
    subprocess.run(['git', '-C', REPO, 'worktree', 'remove', '--force', wt], capture_output=True)
    subprocess.run(['git', '-C', REPO, 'worktree', 'add', '-q', '--detach', wt, 'HEAD'], check=True)
    results = {}
    try:
        r = subprocess.run(['git', '-C', wt, 'apply', patch], capture_output=True, text=True)
        if r.returncode != 0:
            print('patch does not apply:', r.stderr[:500])
            return 2
        env = dict(os.environ)
        env['DSIM_REPO'] = wt
        env['DSIM_EVIDENCE_DIR'] = os.path.join(base, name + '-evidence')
        env['DSIM_REPLAYS_DIR'] = os.path.join(VERIF, 'seeded-replays', name)
        for p in props:
            t = time.time()
            c = subprocess.run([os.path.join(VERIF, 'check'), p, tier], capture_output=True, text=True, cwd=VERIF, env=env)
            lines = [l for l in c.stdout.split('\n') if l.startswith('VIOLATION') or l.startswith('  clause=') or 'HARNESS' in l]
            results[p] = {'rc': c.returncode, 'wall': round(time.time() - t, 1), 'lines': lines[:8]}
            print('%s %s rc=%d %.0fs' % (name, p, c.returncode, time.time() - t))
            for l in lines[:4]:
                print('   ', l[:260])
    finally:
        subprocess.run(['git', '-C', REPO, 'worktree', 'remove', '--force', wt], capture_output=True)
        shutil.rmtree(os.path.join(base, name + '-evidence'), ignore_errors=True)
    with open(os.path.join(d, 'sens_result.json'), 'w') as f:
        json.dump(results, f, indent=1)
    return 0


if __name__ == '__main__':
    sys.exit(main())

"""Known findings: the committed list (never written at run time) and the frozen baseline snapshot
of the library that narrows what the list may suppress."""
import glob
import hashlib
import json
import os
import tarfile

VERIF = os.path.dirname(os.path.dirname(os.path.abspath(__file__)))
KF_PATH = os.path.join(VERIF, 'known_findings.json')
CACHE = os.path.join(VERIF, '.cache')


def load():
    if not os.path.exists(KF_PATH):
        return {'baseline': None, 'findings': [], 'fixed': []}
    with open(KF_PATH) as f:
        return json.load(f)


def clauses_for(prop, kf=None):
    kf = kf or load()
    return {f['clause'] for f in kf['findings'] if f['property'] == prop}


def findings_for(prop, kf=None):
    kf = kf or load()
    return [f for f in kf['findings'] if f['property'] == prop]


def baseline_path(kf=None):
    """Unpack (once) and return the directory holding the snapshot's `musicxml` package, or None."""
    kf = kf or load()
    b = kf.get('baseline')
    if not b:
        return None
    tar = os.path.join(VERIF, b['file'])
    if not os.path.exists(tar):
        return None
    dest = os.path.join(CACHE, 'baseline', b['sha256'][:16])
    marker = os.path.join(dest, '.ok')
    if not os.path.exists(marker):
        h = hashlib.sha256(open(tar, 'rb').read()).hexdigest()
        if h != b['sha256']:
            raise RuntimeError('baseline snapshot hash mismatch')
        tmp = dest + '.tmp%d' % os.getpid()
        os.makedirs(tmp, exist_ok=True)
        with tarfile.open(tar) as t:
            t.extractall(tmp)
        open(os.path.join(tmp, '.ok'), 'w').close()
        try:
            os.rename(tmp, dest)
        except OSError:
            import shutil
            shutil.rmtree(tmp, ignore_errors=True)
    return dest

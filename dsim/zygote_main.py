import sys

from dsim.zygote import serve

if __name__ == '__main__':
    sys.exit(serve(sys.argv[1]))

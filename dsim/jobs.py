"""Jobs executed inside a forked child of a zygote."""
import random
import time

from . import spec, gen, checkers, workloads
from .world import World, Lib, infork

_lib = None


def lib():
    global _lib
    if _lib is None:
        _lib = Lib()
    return _lib


def run_job(job):
    mode = job['mode']
    if mode == 'ping':
        return {'pong': True}
    if mode == 'gen':
        return run_gen(job)
    if mode == 'replay':
        return run_replay(job)
    if mode == 'threads':
        from . import threads
        return threads.run_threads(job, lib())
    if mode == 'call':
        # development helper: call a function of dsim.workloads by name
        return getattr(workloads, job['fn'])(lib(), *job.get('args', []))
    raise ValueError(mode)


def _world(job):
    w = World(lib(), job.get('opts') or {})
    w.checkers = workloads.checkers_for(job['property'], job.get('opts') or {})
    return w


def _result(w, ops, t0, extra=None):
    for c in w.checkers:
        c.finish(w)
    r = {'ops': ops, 'events': w.events, 'digest': w.digest(), 'viol': w.viol, 'stats': w.stats,
         'states': sorted(w.states), 'fs_fired': list(w.fs.fired), 'wall': time.time() - t0,
         'interleaving': getattr(w, 'interleaving', None), 'cover': sorted(w.cover)}
    if extra:
        r.update(extra)
    return r


def run_gen(job):
    t0 = time.time()
    seed = job['seed']
    rng = random.Random(seed)
    w = _world(job)
    cfg = dict(job.get('cfg') or {})
    program, info = workloads.build(job['property'], rng, w, cfg, job.get('index', 0))
    ops = []
    cap = cfg.get('max_ops', 80)
    cases = []
    steps = 0
    for op in program:
        if 'case' in op:
            # a fault case: executed on a forked copy of the world built so far (pristine per case)
            suffix = [dict(o, id=len(ops) + k) for k, o in enumerate(op['case'])]
            res = infork(lambda: _run_case(w, suffix))
            steps += len(suffix)
            if isinstance(res, dict):
                for k, v in res['stats'].items():
                    w.stats[k] = w.stats.get(k, 0) + v
                for v in res['viol']:
                    v = dict(v)
                    v['ops'] = ops + suffix
                    v['at'] = len(ops) + (v.get('at') or 0)
                    w.viol.append(v)
                cases.append({'label': op.get('label'), 'r': [e.get('r') + (':' + e['t'] if e.get('t') else '') for e in res['events']]})
            else:
                w.viol.append({'property': job['property'], 'clause': 'harness-case-failed', 'at': len(ops), 'detail': res})
            continue
        op = dict(op)
        op['id'] = len(ops)
        ops.append(op)
        w.execute(op)
        if len(ops) >= cap:
            break
        if w.viol and cfg.get('stop_on_violation', False):
            break
    extra = {'info': info, 'seed': seed, 'steps': len(ops) + steps}
    if cases:
        extra['cases'] = cases
    return _result(w, ops, t0, extra)


def _run_case(w, suffix):
    base_stats = dict(w.stats)
    nviol = len(w.viol)
    nev = len(w.events)
    for op in suffix:
        w.execute(op)
    stats = {k: v - base_stats.get(k, 0) for k, v in w.stats.items() if v != base_stats.get(k, 0)}
    viol = []
    for v in w.viol[nviol:]:
        v = dict(v)
        v['at'] = v['at'] - nev if isinstance(v.get('at'), int) else v.get('at')
        viol.append(v)
    return {'events': w.events[nev:], 'viol': viol, 'stats': stats}


def run_replay(job):
    t0 = time.time()
    w = _world(job)
    ops = job['ops']
    upto = job.get('upto')
    for k, op in enumerate(ops):
        w.execute(op)
        if upto is not None and k >= upto:
            break
    return _result(w, ops, t0)

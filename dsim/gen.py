"""Seeded, adaptive workload generation.  The only PRNG of a run lives here (random.Random seeded
from the run seed).  Programs are Python generators that yield op dicts; after each yield the op
has been executed and the program may look at the shadow (never at library internals) to steer.

The reference model steers generation (so that runs make progress and hit the interesting
places); it never judges here.
"""
import random

from . import spec
from .world import default_childspec, default_value

TEXTY = None


def hash64(*parts):
    import hashlib
    h = hashlib.sha256(repr(parts).encode()).digest()
    return int.from_bytes(h[:8], 'big')


# ---------------------------------------------------------------------------------- toolkit
class Kit:
    def __init__(self, rng, world, cfg):
        self.rng = rng
        self.w = world
        self.cfg = cfg

    # --- names
    def ms(self, node):
        return [c.name for c in node.children]

    def model(self, node):
        return spec.model_for_element(node.name)

    def compatible(self, node, alphabet):
        m = self.model(node)
        if m is None:
            return []
        ms = self.ms(node)
        return [a for a in alphabet if m.extendable(ms + [a])]

    def incompatible(self, node, alphabet):
        m = self.model(node)
        if m is None:
            return list(alphabet)
        ms = self.ms(node)
        return [a for a in alphabet if not m.extendable(ms + [a])]

    def foreign_name(self, node):
        """An element name that is not in the node's alphabet at all."""
        m = self.model(node)
        alpha = set(m.alpha) if m else set()
        for _ in range(20):
            n = self.rng.choice(spec.ALL_ELEMENTS)
            if n not in alpha:
                return n
        return 'score-partwise'

    # --- child specs
    def childspec(self, name, opaque=None, depth=0):
        rng = self.rng
        if opaque is None:
            opaque = rng.random() < self.cfg.get('p_opaque', 0.8)
        cs = default_childspec(name, opaque=opaque)
        g, _b = spec.element_value_exemplars(name)
        if g:
            cs['value'] = rng.choice(g)
        if rng.random() < self.cfg.get('p_attrs', 0.25):
            cs['attrs'] = self.valid_attrs(name, rng.randint(1, 3))
            if cs['attrs'] and rng.random() < 0.2:
                extra = self.valid_attrs(name, 3)
                for k in extra:
                    if k not in cs['attrs']:
                        cs['attrs'][k] = None       # a None keyword means "not set"
                        break
        if not opaque:
            # checked child: give it what it requires so that it can serialise
            for a, d in spec.attributes_of_element(name).items():
                if d['required'] and _attr_usable(a):
                    v, _ = spec.exemplars(d['type'])
                    if v:
                        cs['attrs'][spec.py_attr_name(a)] = v[0]
            m = spec.model_for_element(name)
            if m is not None and depth < self.cfg.get('max_depth', 2):
                word = m.missing([]) or []
                if rng.random() < 0.3:
                    word = m.sample_word(rng, maxlen=4)
                cs['kids'] = [self.childspec(x, opaque=True if depth >= 1 else None, depth=depth + 1) for x in word]
        return cs

    def valid_attrs(self, name, k):
        rng = self.rng
        table = [(a, d) for a, d in spec.attributes_of_element(name).items() if _attr_usable(a)]
        rng.shuffle(table)
        out = {}
        for a, d in table[:k]:
            v, _ = spec.exemplars(d['type'])
            if d.get('fixed') is not None:
                v = [d['fixed']]
            if v:
                out[spec.py_attr_name(a)] = rng.choice(v)
        return out

    def rootspec(self, name, checked=True):
        cs = {'name': name, 'value': default_value(name), 'attrs': {}, 'xsd_check': checked}
        g, _b = spec.element_value_exemplars(name)
        if g:
            cs['value'] = self.rng.choice(g)
        if self.rng.random() < self.cfg.get('p_root_required_attrs', 0.85):
            for a, d in spec.attributes_of_element(name).items():
                if d['required'] and _attr_usable(a):
                    v, _ = spec.exemplars(d['type'])
                    if v:
                        cs['attrs'][spec.py_attr_name(a)] = v[0]
        return cs


def _attr_usable(a):
    """Attributes the pinned library cannot be given at all (known findings of C04) are left out of
    *steering* (so runs can make progress); the C04 check offers them deliberately."""
    return not (a.startswith('xlink:') or a == 'xml:space' or a == 'name')


# ---------------------------------------------------------------------------------- sub-alphabets
def sub_alphabet(rng, model, k=None):
    """1-6 names biased to names that interact (share a choice / repeated particle)."""
    alpha = model.alpha
    if k is None:
        k = rng.randint(1, min(6, len(alpha)))
    if len(alpha) <= k:
        return list(alpha)
    if rng.random() < 0.5:
        # contiguous window in a random accepted long word: neighbours in the grammar
        w = []
        for _ in range(3):
            w = model.sample_word(rng, maxlen=10, stop_p=0.1)
            if len(set(w)) >= min(k, 2):
                break
        uniq = []
        for s in w:
            if s not in uniq:
                uniq.append(s)
        if len(uniq) >= k:
            i = rng.randrange(len(uniq) - k + 1)
            return uniq[i:i + k]
        rest = [a for a in alpha if a not in uniq]
        rng.shuffle(rest)
        return uniq + rest[:k - len(uniq)]
    return rng.sample(alpha, k)


SHAPES = ['valid_inorder', 'valid_permuted', 'valid_perturbed', 'uniform', 'fill_max', 'alternate_choice',
          'add_remove_cycles', 'build_complete_mutate', 'long_unbounded']


# ---------------------------------------------------------------------------------- programs
def prog_history(kit, actor, doc, elem, cfg):
    """General single-document history: NEW + a seeded mix of child-mutating operations, failing
    attempts, reads and serialisations on one focus element (and sometimes one level below)."""
    rng = kit.rng
    w = kit.w
    model = spec.model_for_element(elem)
    sub = sub_alphabet(rng, model)
    amb = spec.ambiguous_names(elem)
    if amb and rng.random() < 0.7:
        sub = sorted(set(sub[:4]) | set(rng.sample(amb, min(len(amb), 3))))
    shape = cfg.get('shape') or rng.choice(SHAPES)
    nsteps = cfg.get('nsteps') or rng.randint(3, cfg.get('nsteps_max', 14) if rng.random() < 0.5 else 14)
    wts = dict(add=6, add_bad=1.5, add_foreign=0.4, add_to_leaf=0.25, readd=0.5, remove_stale=0.25, weird=0.0, replace_raw=0.25,
               add_attached=0.0, xsd_toggle=0.0, remove_elsewhere=0.0, attr_xml=0.3, padded=0.0, add_under_unchecked=0.3,
               fwd=0.5, remove=2, replace=1, replace_other=0.4,
               dot_value=0.7, dot_element=0.6, dot_none=0.6, to_string=1.2, to_string_ic=0.5, check=0.5,
               check_ic=0.2, complete=0.8, read=0.6, attr=0.4, attr_bad=0.2, value_bad=0.2, remove_foreign=0.2,
               deep=0.5)
    wts.update(cfg.get('weights') or {})
    if amb and wts.get('fwd', 0) > 0:
        wts['fwd'] = max(wts['fwd'], 2.0)
    checked = cfg.get('root_checked', True)
    yield {'op': 'NEW', 'a': actor, 'doc': doc, 'c': kit.rootspec(elem, checked)}
    root = w.docs.get(doc)
    if root is None:
        return
    plan = []
    if shape in ('valid_inorder', 'valid_permuted', 'valid_perturbed', 'build_complete_mutate'):
        word = model.sample_word(rng, maxlen=rng.randint(2, 8))
        if shape == 'valid_permuted':
            rng.shuffle(word)
        elif shape == 'valid_perturbed' and word:
            k = rng.randrange(3)
            i = rng.randrange(len(word))
            if k == 0:
                word.insert(i, rng.choice(model.alpha))
            elif k == 1:
                word.pop(i)
            else:
                j = rng.randrange(len(word))
                word[i], word[j] = word[j], word[i]
        plan = [('add', x) for x in word]
        sub = sorted(set(sub) | set(word))[:8]
    elif shape == 'fill_max':
        a = rng.choice(sub)
        plan = [('add', a)] * rng.randint(2, 9)
    elif shape == 'alternate_choice':
        ab = rng.sample(sub, min(2, len(sub)))
        plan = [('add', ab[i % len(ab)]) for i in range(rng.randint(2, 8))]
    elif shape == 'long_unbounded':
        a = rng.choice(sub)
        plan = [('add', a)] * rng.randint(8, cfg.get('long_n', 25))
    elif shape == 'dup_then_remove':
        # repeat two or three names several times each (forces duplication of an unbounded particle where there is
        # one), some through `forward`, then remove from the middle
        names = rng.sample(sub, min(len(sub), rng.randint(1, 3)))
        plan = []
        for _ in range(rng.randint(3, 7)):
            plan.append(('add', rng.choice(names)))
        for x in names[:2]:
            plan.append(('add_fwd', x))
        for x in names[:2]:
            plan.append(('remove_name', x))
    elif shape == 'add_remove_cycles':
        a = rng.choice(sub)
        plan = []
        for _ in range(rng.randint(1, 3)):
            plan += [('add', a), ('remove_name', a)]
        plan.append(('add', rng.choice(sub)))
    for kind, x in plan:
        if kind == 'add':
            yield {'op': 'ADD', 'a': actor, 'p': [doc], 'c': kit.childspec(x)}
        elif kind == 'add_fwd':
            yield {'op': 'ADD', 'a': actor, 'p': [doc], 'c': kit.childspec(x), 'fwd': rng.randrange(0, 4)}
        elif kind == 'remove_name':
            idx = [i for i, c in enumerate(root.children) if c.name == x]
            if idx:
                yield {'op': 'REMOVE', 'a': actor, 'p': [doc], 'i': rng.choice(idx)}
        if rng.random() < 0.15:
            yield from _one_random(kit, actor, doc, root, sub, wts, cfg)
    for _ in range(nsteps):
        yield from _one_random(kit, actor, doc, root, sub, wts, cfg)
    if rng.random() < cfg.get('p_final_serialise', 0.7):
        if rng.random() < 0.6:
            yield from complete(kit, actor, w.path_of(root) or [doc], root)
        yield {'op': 'TO_STRING', 'a': actor, 'p': [doc], 'ic': rng.random() < cfg.get('p_ic', 0.25)}
        if elem == 'score-partwise' and rng.random() < 0.7:
            yield {'op': 'WRITE', 'a': actor, 'doc': doc, 'path': doc + '.xml', 'ic': rng.random() < cfg.get('p_ic', 0.25)}


def _focus(kit, root, cfg):
    """Mostly the root; sometimes a checked element-content descendant."""
    rng = kit.rng
    if rng.random() < cfg.get('p_deep', 0.2):
        cands = [n for n in root.walk() if n is not root and n.xsd_check and spec.model_for_element(n.name) is not None]
        if cands:
            return rng.choice(cands)
    return root


def _one_random(kit, actor, doc, root, sub, wts, cfg):
    rng = kit.rng
    w = kit.w
    node = _focus(kit, root, cfg)
    path = w.path_of(node)
    if path is None:
        return
    model = spec.model_for_element(node.name)
    if node is not root:
        alpha = model.alpha if model else []
        sub = rng.sample(alpha, min(len(alpha), 4)) if alpha else []
    kinds = list(wts)
    kind = rng.choices(kinds, [wts[k] for k in kinds])[0]
    if kind == 'add':
        comp = kit.compatible(node, sub) if node.xsd_check else list(sub)
        pool = comp if (comp and rng.random() < 0.8) else sub
        if pool:
            yield {'op': 'ADD', 'a': actor, 'p': path, 'c': kit.childspec(rng.choice(pool))}
    elif kind == 'add_bad':
        bad = kit.incompatible(node, model.alpha if model else [])
        if bad:
            yield {'op': 'ADD', 'a': actor, 'p': path, 'c': kit.childspec(rng.choice(bad)), 'fault': 'rej.incompatible'}
    elif kind == 'add_foreign':
        yield {'op': 'ADD', 'a': actor, 'p': path, 'c': kit.childspec(kit.foreign_name(node), opaque=True),
               'fault': 'rej.wrong_child'}
    elif kind == 'add_to_leaf':
        # offer a child to a checked element that cannot have children at all
        leaves = [n for n in root.walk() if n.xsd_check and spec.model_for_element(n.name) is None]
        if leaves:
            lf = rng.choice(leaves)
            lp = w.path_of(lf)
            if lp:
                yield {'op': 'ADD', 'a': actor, 'p': lp, 'c': kit.childspec(rng.choice(spec.ALL_ELEMENTS), opaque=True),
                       'fault': 'rej.cannot_have_children'}
        elif node.xsd_check and node.children:
            # make one: a checked childless child, then offer it a child
            pass
    elif kind == 'readd':
        # re-use a child that was removed / replaced out earlier (same or another parent)
        pool = w.detached_of(doc)
        det = [k for k, n in enumerate(pool) if n.parent is None]
        if det:
            k = rng.choice(det)
            yield {'op': 'ADD', 'a': actor, 'p': path, 'reuse': k, 'reuse_doc': doc, 'c': {'name': pool[k].name}}
    elif kind == 'remove_stale':
        pool = w.detached_of(doc)
        det = [k for k, n in enumerate(pool) if n.parent is None]
        if det:
            yield {'op': 'REMOVE', 'a': actor, 'p': path, 'i': 0, 'reuse': rng.choice(det), 'reuse_doc': doc, 'fault': 'rej.not_a_child'}
    elif kind == 'weird':
        # values / children of uncertain status: only the *type* of any resulting exception is judged (C19)
        pool = [True, False, 1e-05, [], {}, [1], 10 ** 30, -0.0, '', ' ', None, 'None', 3.0]
        r = rng.random()
        if r < 0.35:
            yield {'op': 'VALUE_SET', 'a': actor, 'p': path, 'value': rng.choice(pool)}
        elif r < 0.5 and sub:
            yield {'op': 'DOT_SET', 'a': actor, 'p': path, 'name': rng.choice(sub), 'v': {'kind': 'value', 'value': rng.choice(pool)}}
        elif r < 0.6:
            # malformed shortcut names: xml_, xml_step_, xml__step, xml_key__step
            nm = rng.choice(['', (rng.choice(sub) if sub else 'step') + '-', '-' + (rng.choice(sub) if sub else 'step'), 'key--step', '-'])
            if rng.random() < 0.5:
                yield {'op': 'DOT_SET', 'a': actor, 'p': path, 'name': nm, 'v': {'kind': 'value', 'value': rng.choice(['a', 1, None])}}
            else:
                yield {'op': 'DOT_GET', 'a': actor, 'p': path, 'name': nm}
        elif r < 0.8:
            at = kit.valid_attrs(node.name, 1)
            for k in at:
                yield {'op': 'ATTR_SET', 'a': actor, 'p': path, 'name': k, 'value': rng.choice(pool)}
        elif sub:
            nm = rng.choice(sub)
            cs = kit.childspec(nm, opaque=False)
            cs['value'] = rng.choice(pool)
            yield {'op': 'ADD', 'a': actor, 'p': path, 'c': cs}
    elif kind == 'fwd':
        if sub:
            yield {'op': 'ADD', 'a': actor, 'p': path, 'c': kit.childspec(rng.choice(sub)), 'fwd': rng.randrange(0, 3)}
    elif kind == 'remove':
        if node.children:
            yield {'op': 'REMOVE', 'a': actor, 'p': path, 'i': rng.randrange(len(node.children))}
    elif kind == 'remove_foreign':
        yield {'op': 'REMOVE', 'a': actor, 'p': path, 'i': 0,
               'foreign': kit.childspec(rng.choice(sub) if sub else 'pitch', opaque=True), 'fault': 'rej.not_a_child'}
    elif kind == 'replace':
        if node.children:
            i = rng.randrange(len(node.children))
            yield {'op': 'REPLACE', 'a': actor, 'p': path, 'i': i, 'c': kit.childspec(node.children[i].name),
                   'by': 'pred' if rng.random() < 0.3 else 'ref'}
    elif kind == 'add_attached':
        # re-offer a child that is already attached, where the offer must fail: to its own parent with an impossible
        # forward index, or to a checked element whose alphabet does not contain it
        cands = [n for n in root.walk() if n.parent is not None]
        if cands:
            c = rng.choice(cands)
            cp = w.path_of(c)
            if rng.random() < 0.5:
                pp = w.path_of(c.parent)
                if pp and cp and c.parent.xsd_check:
                    yield {'op': 'ADD', 'a': actor, 'p': pp, 'attached': cp, 'fwd': rng.choice([7, 9, 23]), 'c': {'name': c.name},
                           'fault': 'rej.attached_child'}
            else:
                others = [n for n in root.walk() if n.xsd_check and n is not c and n is not c.parent and
                          not any(x is c for x in w._ancestors(n)) and
                          (spec.model_for_element(n.name) is None or c.name not in spec.model_for_element(n.name).alpha)]
                if others and cp:
                    t = rng.choice(others)
                    tp = w.path_of(t)
                    if tp:
                        yield {'op': 'ADD', 'a': actor, 'p': tp, 'attached': cp, 'c': {'name': c.name}, 'fault': 'rej.attached_child'}
    elif kind == 'add_under_unchecked':
        # an unchecked element of ANY type (also one whose type has no children at all) accepts any child
        un = [n for n in root.walk() if not n.xsd_check]
        if un:
            t = rng.choice(un)
            tp = w.path_of(t)
            if tp:
                yield {'op': 'ADD', 'a': actor, 'p': tp, 'c': kit.childspec(rng.choice(spec.ALL_ELEMENTS), opaque=True)}
    elif kind == 'padded':
        # free text with leading / trailing / doubled white space, assigned after construction
        texty = [c for c in node.children if spec.type_kind(spec.ELEM_TYPE[c.name]) == 'simple'
                 and spec.simple_info(spec.simple_content_type(spec.ELEM_TYPE[c.name]) or 'x')['kind'] in ('string', 'token')]
        val = rng.choice(['la ', ' e ', '  two  spaces', 'tab\t', ' lead'])
        if texty:
            t = rng.choice(texty)
            tp = w.path_of(t)
            if tp and rng.random() < 0.5:
                yield {'op': 'VALUE_SET', 'a': actor, 'p': tp, 'value': val}
            elif sum(1 for c in node.children if c.name == t.name) == 1:
                yield {'op': 'DOT_SET', 'a': actor, 'p': path, 'name': t.name, 'v': {'kind': 'value', 'value': val}}
        else:
            from .workloads import string_positions
            opts = [x for x in (spec.model_for_element(node.name).alpha if spec.model_for_element(node.name) else []) if x in string_positions()]
            comp = kit.compatible(node, opts) if node.xsd_check else opts
            if comp:
                yield {'op': 'ADD', 'a': actor, 'p': path, 'c': dict(kit.childspec(rng.choice(comp), opaque=False), value='plain', kids=[])}
    elif kind == 'xsd_toggle':
        # switch xsd_check on an element after construction (a public property)
        cands = [n for n in root.walk()]
        t = rng.choice(cands)
        tp = w.path_of(t)
        if tp:
            yield {'op': 'XSD_CHECK_SET', 'a': actor, 'p': tp, 'value': not t.xsd_check}
    elif kind == 'remove_elsewhere':
        # ask an element to remove a child that belongs to another element (same or another document)
        pool = []
        for dname, droot in sorted(w.docs.items()):
            for n in droot.walk():
                if n.parent is not None and n.parent is not node:
                    pool.append(n)
        if pool and node.xsd_check:
            t = rng.choice(pool)
            tp = w.path_of(t)
            if tp and (tp[0] == doc or cfg.get('cross_doc_faults')):
                yield {'op': 'REMOVE', 'a': actor, 'p': path, 'i': 0, 'attached': tp, 'fault': 'rej.not_a_child'}
    elif kind == 'attr_xml':
        # the XML spelling of an attribute name (hyphens), as the parser uses it
        at = kit.valid_attrs(node.name, 1)
        for k, v in at.items():
            yield {'op': 'ATTR_SET', 'a': actor, 'p': path, 'name': k, 'value': v, 'spelling': 'xml'}
    elif kind == 'replace_raw':
        if node.children:
            yield {'op': 'REPLACE', 'a': actor, 'p': path, 'i': rng.randrange(len(node.children)),
                   'raw': rng.choice([None, 'text', 3, 2.5]), 'c': {'name': '?'}, 'fault': 'rej.not_an_element'}
    elif kind == 'replace_other':
        if node.children and sub:
            i = rng.randrange(len(node.children))
            yield {'op': 'REPLACE', 'a': actor, 'p': path, 'i': i, 'c': kit.childspec(rng.choice(sub))}
    elif kind in ('dot_value', 'dot_element', 'dot_none'):
        if not sub:
            return
        name = rng.choice(sub)
        if sum(1 for c in node.children if c.name == name) > 1:
            return
        if kind == 'dot_value':
            g, b = spec.element_value_exemplars(name)
            if not g:
                return
            val = rng.choice(b) if (b and rng.random() < 0.15) else rng.choice(g)
            yield {'op': 'DOT_SET', 'a': actor, 'p': path, 'name': name, 'v': {'kind': 'value', 'value': val}}
        elif kind == 'dot_element':
            if rng.random() < 0.2:
                # an element of ANOTHER class assigned to the shortcut of `name` (must be refused)
                other = rng.choice([x for x in (sub + [kit.foreign_name(node)]) if x != name] or [kit.foreign_name(node)])
                yield {'op': 'DOT_SET', 'a': actor, 'p': path, 'name': name, 'v': {'kind': 'element', 'c': kit.childspec(other)},
                       'fault': 'rej.wrong_child'}
            else:
                yield {'op': 'DOT_SET', 'a': actor, 'p': path, 'name': name, 'v': {'kind': 'element', 'c': kit.childspec(name)}}
        else:
            yield {'op': 'DOT_SET', 'a': actor, 'p': path, 'name': name, 'v': {'kind': 'none'}}
    elif kind == 'to_string':
        yield {'op': 'TO_STRING', 'a': actor, 'p': path, 'ic': False}
    elif kind == 'to_string_ic':
        yield {'op': 'TO_STRING', 'a': actor, 'p': path, 'ic': True}
    elif kind == 'check':
        yield {'op': 'CHECK', 'a': actor, 'p': path}
    elif kind == 'check_ic':
        yield {'op': 'CHECK', 'a': actor, 'p': path, 'ic': True}
    elif kind == 'complete':
        yield from complete(kit, actor, path, node)
    elif kind == 'read':
        which = rng.choice(['children_ordered', 'children_unordered', 'find_child', 'find_children',
                            'possible_children_names', 'get_parent', 'et_xml_element', 'attributes'])
        op = {'op': 'READ', 'a': actor, 'p': path, 'which': which}
        if which.startswith('find'):
            op['arg'] = rng.choice(sub) if sub else 'pitch'
        yield op
    elif kind == 'attr':
        at = kit.valid_attrs(node.name, 1)
        for k, v in at.items():
            if rng.random() < 0.2:
                v = None
            yield {'op': 'ATTR_SET', 'a': actor, 'p': path, 'name': k, 'value': v}
    elif kind == 'attr_bad':
        table = [(a, d) for a, d in spec.attributes_of_element(node.name).items() if _attr_usable(a)]
        if table and rng.random() < 0.6:
            a, d = rng.choice(table)
            _g, b = spec.exemplars(d['type'])
            if b:
                yield {'op': 'ATTR_SET', 'a': actor, 'p': path, 'name': spec.py_attr_name(a), 'value': rng.choice(b),
                       'fault': 'rej.bad_attr_value'}
        else:
            yield {'op': 'ATTR_SET', 'a': actor, 'p': path, 'name': rng.choice(['bogus', 'no_such_attr', 'colour']),
                   'value': 'x', 'fault': 'rej.bad_attr_name'}
    elif kind == 'value_bad':
        g, b = spec.element_value_exemplars(node.name)
        if b:
            yield {'op': 'VALUE_SET', 'a': actor, 'p': path, 'value': rng.choice(b), 'fault': 'rej.bad_value'}
    elif kind == 'deep':
        # operate one level below: add a checked child with its own content, to be mutated later
        withmodel = [s for s in sub if spec.model_for_element(s) is not None]
        comp = kit.compatible(node, withmodel) if node.xsd_check else withmodel
        if comp:
            yield {'op': 'ADD', 'a': actor, 'p': path, 'c': kit.childspec(rng.choice(comp), opaque=False)}


def complete(kit, actor, path, node):
    """COMPLETE macro: ordinary ADD / ATTR_SET ops, computed from the reference model, that supply
    what the schema still requires of `node` (children of the focus only; deeper nodes when they are
    checked)."""
    w = kit.w
    todo = [(path, node)]
    budget = 12
    while todo and budget > 0:
        p, n = todo.pop(0)
        if not n.xsd_check:
            continue
        for a, d in spec.attributes_of_element(n.name).items():
            if d['required'] and a not in n.attrs and _attr_usable(a):
                v, _ = spec.exemplars(d['type'])
                if v:
                    yield {'op': 'ATTR_SET', 'a': actor, 'p': p, 'name': spec.py_attr_name(a), 'value': v[0], 'macro': 'complete'}
        m = spec.model_for_element(n.name)
        if m is not None:
            miss = m.missing([c.name for c in n.children])
            for x in miss or []:
                budget -= 1
                yield {'op': 'ADD', 'a': actor, 'p': p, 'c': kit.childspec(x), 'macro': 'complete'}
        for i, c in enumerate(n.children):
            if c.xsd_check and spec.model_for_element(c.name) is not None:
                todo.append((p + [i], c))


# ---------------------------------------------------------------------------------- scheduler
def interleave(rng, programs, weights=None):
    """Seeded cooperative scheduler: one op = one step.  programs: list of generators."""
    live = list(range(len(programs)))
    order = []
    while live:
        if weights:
            i = rng.choices(live, [weights[j] for j in live])[0]
        else:
            i = rng.choice(live)
        try:
            op = next(programs[i])
        except StopIteration:
            live.remove(i)
            continue
        order.append(i)
        yield op
    return order


def pick_elements(rng, n, index=None):
    """Element-content elements; round-robin by run index so that every type is hit in every tier."""
    names = spec.ELEMENT_CONTENT_ELEMENTS
    out = []
    for k in range(n):
        if index is not None and k == 0 and index % 5 == 3:
            # a fifth of the runs: the few types in which a child name has several slots (note, lyric, metronome,
            # credit, part-list) - where first-fit placement, forward indices and intelligent choice interact
            out.append(spec.AMBIGUOUS_ELEMENTS[(index // 5) % len(spec.AMBIGUOUS_ELEMENTS)])
        elif index is not None and k == 0:
            out.append(names[index % len(names)])
        else:
            out.append(rng.choice(names))
    return out

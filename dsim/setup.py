"""`./check setup`: unpack the baseline snapshot, self-test the reference model, start one zygote."""
import os
import sys

from . import known, spec, runner


def main():
    b = known.baseline_path()
    print('baseline snapshot:', b)
    spec.selftest()
    from . import spectest
    bad = spectest.against_repo_files()
    if bad:
        print('HARNESS-ERROR reference model rejects the repository\'s own MusicXML files:', bad[:5])
        return 2
    repo = os.environ.get('DSIM_REPO', '/repo')
    z = runner.zygote(repo)
    print('zygote for %s ready in %.2fs' % (repo, z.hello['import_s']))
    r = z.run({'mode': 'ping'})
    assert r.get('pong')
    if b:
        zb = runner.zygote(b)
        print('zygote for baseline ready in %.2fs' % zb.hello['import_s'])
    runner.close_all()
    print('setup ok')
    return 0

"""Check driver: seeds -> runs in pristine forks -> oracles -> known-finding guard -> minimised
replay files -> evidence.  Exit codes: 0 held (KNOWN-FINDING lines allowed), 1 VIOLATION, 2 harness fault."""
import concurrent.futures as cf
import faulthandler
import hashlib
import json
import multiprocessing
import os
import sys
import time
import traceback

from . import runner, judges, known, shrink, props
from .gen import hash64

VERIF = os.path.dirname(os.path.dirname(os.path.abspath(__file__)))
REPO = os.environ.get('DSIM_REPO', '/repo')
REPLAYS = os.environ.get('DSIM_REPLAYS_DIR') or os.path.join(VERIF, 'replays')
EVIDENCE = os.environ.get('DSIM_EVIDENCE_DIR') or os.path.join(VERIF, 'evidence')
NPROC = int(os.environ.get('DSIM_JOBS', '16'))


def ophash(ops):
    return hashlib.sha256(json.dumps(ops, sort_keys=True, default=str).encode()).hexdigest()[:16]


# ---------------------------------------------------------------------------------- worker side
def work(args):
    prop, base_seed, indices, cfg, baseline, known_clauses, deadline = args
    faulthandler.enable()
    out = {'runs': 0, 'ops': 0, 'stats': {}, 'states': set(), 'nontrivial': set(), 'known': {}, 'new': [],
           'samples': [], 'errors': [], 'digests': {}, 'interleavings': set(), 'sim_steps': 0, 'skipped': 0, 'cover': set()}
    P = props.get(prop)
    for idx in indices:
        if deadline and time.time() > deadline:
            out['skipped'] += 1
            continue
        seed = hash64(base_seed, prop, idx)
        try:
            one_run(P, prop, seed, idx, cfg, baseline, known_clauses, out)
        except runner.HarnessError as e:
            out['errors'].append({'index': idx, 'seed': seed, 'error': str(e)[:1500]})
            runner.close_all()
        except Exception as e:
            out['errors'].append({'index': idx, 'seed': seed, 'error': traceback.format_exc()[-1500:]})
    runner.close_all()
    out.pop('_reported', None)
    out['states'] = sorted(out['states'])
    out['nontrivial'] = sorted(out['nontrivial'])
    out['interleavings'] = sorted(out['interleavings'])
    out['cover'] = sorted(out['cover'])
    return out


def one_run(P, prop, seed, idx, cfg, baseline, known_clauses, out):
    z = runner.zygote(REPO)
    job = {'mode': P.mode, 'property': prop, 'seed': seed, 'index': idx, 'cfg': cfg, 'opts': P.opts, 'timeout': P.timeout}
    main = z.run(job)
    ops = main['ops']
    main_r, viol = judges.evaluate(prop, ops, REPO, P.opts, main=main)
    out['runs'] += 1
    out['ops'] += len(ops)
    out['sim_steps'] += main.get('steps', len(ops))
    for k, v in main['stats'].items():
        out['stats'][k] = out['stats'].get(k, 0) + v
    out['states'].update(main.get('states', ()))
    out['cover'].update(main.get('cover', ()))
    out['digests'][str(idx)] = main['digest']
    if main.get('interleaving'):
        out['interleavings'].add(main['interleaving'])
    if P.nontrivial(main):
        out['nontrivial'].add(ophash(ops))
    if len(out['samples']) < 3 and (P.nontrivial(main) or idx % 7 == 0):
        out['samples'].append({'seed': seed, 'index': idx, 'ops': brief_ops(ops, main.get('events'))})
    if not viol:
        return
    kn, new = [], viol
    own = [v for v in viol if 'ops' in v]          # violations of fault cases carry their own history
    plain = [v for v in viol if 'ops' not in v]
    if baseline:
        kn, new = [], []
        if plain:
            _mb, viol_base = judges.evaluate(prop, ops, baseline, P.opts)
            k1, n1 = judges.split_known(prop, plain, viol_base, known_clauses)
            kn += k1
            new += n1
        if own:
            # first pass: the same seeded job on the baseline; identical behaviour gives identical cases
            zb = runner.zygote(baseline)
            mb = zb.run(job)
            base_keys = {}
            for v in mb['viol']:
                if 'ops' in v:
                    k = judges.canon(v) + ophash(v['ops'])
                    base_keys[k] = base_keys.get(k, 0) + 1
            for v in own:
                k = judges.canon(v) + ophash(v['ops'])
                if v['clause'] in known_clauses and base_keys.get(k, 0) > 0:
                    kn.append(v)
                    continue
                # second pass: this very history on the baseline
                _mb2, vb = judges.evaluate(prop, v['ops'], baseline, P.opts)
                k2, n2 = judges.split_known(prop, [v], vb, known_clauses)
                kn += k2
                new += n2
    for v in kn:
        out['known'][v['clause']] = out['known'].get(v['clause'], 0) + 1
    seen = out.setdefault('_reported', {})
    for v in new:
        # minimise at most twice per clause per worker chunk; further hits are only counted
        if seen.get(v['clause'], 0) >= 2:
            out['new_more'] = out.get('new_more', 0) + 1
            continue
        seen[v['clause']] = seen.get(v['clause'], 0) + 1
        out['new'].append(report(P, prop, seed, idx, ops, v, baseline, known_clauses, main))


def report(P, prop, seed, idx, ops, v, baseline, known_clauses, main):
    """Minimise and write the replay file for a new violation."""
    clause = v['clause']

    def fails(cand):
        _m, vr = judges.evaluate(prop, cand, REPO, P.opts)
        vr = [x for x in vr if x['clause'] == clause]
        if not vr:
            return False
        if baseline and clause in known_clauses:
            _b, vb = judges.evaluate(prop, cand, baseline, P.opts)
            _k, nw = judges.split_known(prop, vr, vb, known_clauses)
            return bool(nw)
        return True

    if 'ops' in v:
        ops = v['ops']
    upto = v.get('at')
    cand0 = ops[:upto + 1] if isinstance(upto, int) and upto >= 0 and P.prefix_closed else ops
    if not fails(cand0):
        cand0 = ops
    small, ntests = shrink.ddmin(cand0, fails, budget_s=P.shrink_budget)
    if len(small) > 12:
        # long histories: positional paths keep plain ddmin from dropping elder siblings; drop them with renumbering
        def fails_ev(c):
            m2, vr2 = judges.evaluate(prop, c, REPO, P.opts)
            if not any(x['clause'] == clause for x in vr2):
                return False
            if baseline and clause in known_clauses:
                _b, vb = judges.evaluate(prop, c, baseline, P.opts)
                _k, nw = judges.split_known(prop, [x for x in vr2 if x['clause'] == clause], vb, known_clauses)
                if not nw:
                    return False
            return m2['events']
        m0, _v0 = judges.evaluate(prop, small, REPO, P.opts)
        small, n2 = shrink.shrink_siblings(small, m0['events'], fails_ev, budget_s=P.shrink_budget * 2)
        ntests += n2
        small, n3 = shrink.ddmin(small, fails, budget_s=P.shrink_budget / 2)
        ntests += n3
    m, vr = judges.evaluate(prop, small, REPO, P.opts)
    vv = [x for x in vr if x['clause'] == clause]
    obs = vv[0] if vv else v
    rep = {'property': prop, 'clause': clause, 'seed': seed, 'index': idx, 'ops': small, 'schedule': m.get('schedule'),
           'digest': m['digest'], 'observation': obs, 'original_len': len(ops), 'shrink_tests': ntests,
           'opts': P.opts, 'mode': 'replay', 'dsim_version': 1}
    os.makedirs(REPLAYS, exist_ok=True)
    name = '%s-%s.json' % (prop, ophash([clause, small]))
    path = os.path.join(REPLAYS, name)
    with open(path, 'w') as f:
        json.dump(rep, f, indent=1, default=str)
    return {'clause': clause, 'replay': path, 'len': len(small), 'seed': seed, 'index': idx, 'detail': obs.get('detail')}


def hashseed_violation(prop, P, r_other, seed, idx):
    """C16: the same history gives another serialisation under another PYTHONHASHSEED."""
    z0 = runner.zygote(REPO)
    r0 = z0.run({'mode': 'replay', 'property': prop, 'ops': r_other['ops'], 'opts': P.opts})
    pos = None
    for i, (a, b) in enumerate(zip(r0['events'], r_other['events'])):
        if a != b:
            pos = i
            break
    if pos is None or r_other['ops'][pos]['op'] not in ('TO_STRING', 'OBS', 'WRITE'):
        return None
    ops = r_other['ops'][:pos + 1]
    rep = {'property': prop, 'clause': 'serialisation-depends-on-hash-seed', 'seed': seed, 'index': idx, 'ops': ops,
           'mode': 'hashseed', 'hashseeds': [0, 12345], 'opts': P.opts, 'dsim_version': 1,
           'observation': {'clause': 'serialisation-depends-on-hash-seed', 'at': pos,
                           'detail': {'op': r_other['ops'][pos]['op'], 'under_0': r0['events'][pos].get('v') if not isinstance(r0['events'][pos].get('v'), dict) else 'observation differs',
                                      'under_12345': r_other['events'][pos].get('v') if not isinstance(r_other['events'][pos].get('v'), dict) else 'observation differs'}}}
    os.makedirs(REPLAYS, exist_ok=True)
    path = os.path.join(REPLAYS, '%s-hashseed-%s.json' % (prop, ophash(ops)))
    with open(path, 'w') as f:
        json.dump(rep, f, indent=1, default=str)
    return {'clause': rep['clause'], 'replay': path, 'len': len(ops), 'seed': seed, 'index': idx, 'detail': rep['observation']['detail']}


def brief_ops(ops, events=None):
    out = []
    for i, op in enumerate(ops[:40]):
        o = {k: v for k, v in op.items() if k not in ('id',)}
        if events and i < len(events):
            e = events[i]
            o['->'] = e['r'] if e['r'] != 'exc' else 'exc:' + e['t']
        out.append(o)
    return out


# ---------------------------------------------------------------------------------- main side
def run_check(prop, tier, seed=None):
    t0 = time.time()
    if seed is None:
        seed = int(os.environ.get('VERIF_SEED', '0') or 0)
    P = props.get(prop)
    if P.mode == 'threads':
        from . import c20
        return c20.run(prop, tier, seed)
    n = P.runs[tier]
    scale = float(os.environ.get('DSIM_SCALE', '1') or 1)     # development only (neutral-change sweeps)
    if scale != 1:
        n = max(50, int(n * scale))
    wall_cap = P.wall[tier]
    kf = known.load()
    baseline = known.baseline_path(kf)
    known_clauses = sorted(known.clauses_for(prop, kf))
    cfg = dict(P.cfg.get(tier, {}))
    chunk = max(4, min(200, n // (NPROC * 6) or 1))
    tasks = []
    deadline = t0 + wall_cap
    only = os.environ.get('DSIM_INDICES')
    if only:          # development: run exactly these run indices
        idxs = [int(x) for x in only.split(',')]
        n = len(idxs)
        tasks.append((prop, seed, idxs, cfg, baseline, set(known_clauses), deadline))
    else:
        for s in range(0, n, chunk):
            tasks.append((prop, seed, list(range(s, min(n, s + chunk))), cfg, baseline, set(known_clauses), deadline))
    agg = {'runs': 0, 'ops': 0, 'stats': {}, 'states': set(), 'nontrivial': set(), 'known': {}, 'new': [],
           'samples': [], 'errors': [], 'interleavings': set(), 'sim_steps': 0, 'skipped': 0, 'digests': {}, 'cover': set()}
    ctx = multiprocessing.get_context('fork')
    with cf.ProcessPoolExecutor(max_workers=NPROC, mp_context=ctx) as ex:
        futs = [ex.submit(work, t) for t in tasks]
        for f in cf.as_completed(futs):
            try:
                r = f.result(timeout=wall_cap + 600)
            except Exception as e:
                agg['errors'].append({'error': 'worker: ' + repr(e)})
                continue
            merge(agg, r)
    wall = time.time() - t0
    # determinism sample: a few of the runs again, in a fresh zygote under another PYTHONHASHSEED; the event-log
    # digests (operations, outcomes, forked observations) must be identical
    det = {'rerun': 0, 'mismatch': []}
    if not only and agg['runs'] > 0:
        try:
            z = runner.Zygote(REPO, env={'PYTHONHASHSEED': '12345'})
            hs_viol = []
            for idx in sorted(int(k) for k in agg['digests'])[:P.det_sample]:
                r = z.run({'mode': P.mode, 'property': prop, 'seed': hash64(seed, prop, idx), 'index': idx, 'cfg': cfg,
                           'opts': P.opts, 'timeout': P.timeout})
                det['rerun'] += 1
                if r['digest'] != agg['digests'][str(idx)]:
                    if prop == 'C16' and not hs_viol:
                        v = hashseed_violation(prop, P, r, seed, idx)
                        if v:
                            hs_viol.append(v)
                            continue
                    det['mismatch'].append(idx)
            z.close()
            agg['new'].extend(hs_viol)
        except runner.HarnessError as e:
            agg['errors'].append({'error': 'determinism sample: ' + str(e)[:300]})
        if det['mismatch']:
            agg['errors'].append({'error': 'non-deterministic runs (digest differs under another PYTHONHASHSEED): %r' % det['mismatch']})
    # extra stages (enumerations, real-locale sub-interpreters) live in the property definition
    extra = P.extra(prop, tier, seed, agg) if P.extra else {}
    extra.setdefault('coverage', {})['determinism_sample'] = det
    return finish(prop, tier, seed, P, agg, kf, baseline, wall, t0, extra)


def merge(agg, r):
    for k in ('runs', 'ops', 'sim_steps', 'skipped'):
        agg[k] += r[k]
    for k, v in r['stats'].items():
        agg['stats'][k] = agg['stats'].get(k, 0) + v
    for k in ('states', 'nontrivial', 'interleavings', 'cover'):
        agg[k].update(r[k])
    for k, v in r['known'].items():
        agg['known'][k] = agg['known'].get(k, 0) + v
    agg['new'].extend(r['new'])
    agg['errors'].extend(r['errors'])
    agg['digests'].update(r['digests'])
    for s in r['samples']:
        if len(agg['samples']) < 3:
            agg['samples'].append(s)


def finish(prop, tier, seed, P, agg, kf, baseline, wall, t0, extra):
    lines = []
    code = 0
    for f in known.findings_for(prop, kf):
        n = agg['known'].get(f['clause'], 0)
        lines.append('KNOWN-FINDING: property=%s %s %s (hit %dx this run)' % (prop, f['clause'], f['what'], n))
    seen = set()
    for v in sorted(agg['new'], key=lambda x: (x['clause'], x['len'])):
        if v['clause'] in seen:
            continue
        seen.add(v['clause'])
        lines.append('VIOLATION property=%s replay=%s' % (prop, v['replay']))
        lines.append('  clause=%s ops=%d seed=%s detail=%s' % (v['clause'], v['len'], v['seed'], json.dumps(v.get('detail'), default=str)[:300]))
        code = 1
    for v in extra.get('violations', []):
        lines.append('VIOLATION property=%s replay=%s' % (prop, v['replay']))
        lines.append('  clause=%s %s' % (v['clause'], json.dumps(v.get('detail'), default=str)[:300]))
        code = 1
    harness_bad = bool(agg['errors']) or agg['runs'] == 0 or extra.get('harness_error')
    total_wall = time.time() - t0
    faults = {k[6:]: v for k, v in agg['stats'].items() if k.startswith('fault.')}
    reach = {k[6:]: v for k, v in agg['stats'].items() if k.startswith('reach.')}
    ev = {
        'property_id': prop, 'tier': tier, 'seed': seed, 'level': P.level,
        'coverage': {
            'evaluations': agg['runs'] + extra.get('evaluations', 0),
            'distinct_nontrivial': len(agg['nontrivial']) + extra.get('distinct_nontrivial', 0),
            'rule': P.rule,
            'samples': agg['samples'] + extra.get('samples', []),
            'simulated_operations': agg['ops'],
            'simulated_steps': agg['sim_steps'],
            'runs_per_hour': int(agg['runs'] / max(total_wall, 1e-6) * 3600),
            'seeds_per_hour': int(agg['runs'] / max(total_wall, 1e-6) * 3600),
            'simulated_time': 'the system under test has no clock; simulated time is the event sequence number: %d operation steps' % agg['sim_steps'],
            'faults_fired': faults,
            'reach': reach,
            'oracle_judgements': {k: v for k, v in agg['stats'].items() if len(k) > 3 and k[0] == 'c' and k[1:3].isdigit() and k[3] == '.'},
            'op_histogram': {k[3:]: v for k, v in agg['stats'].items() if k.startswith('op.')},
            'exceptions_seen': {k[4:]: v for k, v in agg['stats'].items() if k.startswith('exc.')},
            'distinct_states': len(agg['states']),
            'distinct_states_measure': 'distinct (element, child-name multiset) pairs reached on a focus element',
            'distinct_interleavings': len(agg['interleavings']),
            'element_types_exercised': len([c for c in agg['cover'] if c.startswith('type:')]),
            'declared_element_attribute_pairs_offered': len([c for c in agg['cover'] if c.startswith('pair:')]),
            'known_findings_hit': agg['known'],
            'new_violations': [{'clause': v['clause'], 'replay': v['replay']} for v in agg['new']][:20],
            'runs_skipped_for_wall_clock': agg['skipped'],
            'real_vs_stub': props.REAL_VS_STUB,
            'exhaustive': False,
        },
        'assumptions': [
            'reference model = /verif/spec/musicxml_4_0.xsd (pinned copy, sha256 in spec/SHA256SUMS)',
            'known-finding guard baseline = %s' % (kf['baseline']['file'] if kf.get('baseline') else 'none (clause-only matching impossible: every violation is reported)'),
            'python %s' % sys.version.split()[0],
            'library imported from %s (working tree)' % REPO,
        ] + P.assumptions,
        'wall_s': round(total_wall, 2),
        'violations': len(seen) + len(extra.get('violations', [])),
    }
    for k, v in extra.get('coverage', {}).items():
        ev['coverage'][k] = v
    if harness_bad:
        ev['coverage']['harness_errors'] = agg['errors'][:5]
    os.makedirs(EVIDENCE, exist_ok=True)
    tmp = os.path.join(EVIDENCE, '.%s.json.tmp' % prop)
    with open(tmp, 'w') as f:
        json.dump(ev, f, indent=1, default=str)
    os.replace(tmp, os.path.join(EVIDENCE, '%s.json' % prop))
    print('dsim %s %s seed=%d: %d runs, %d ops, %d distinct non-trivial histories, %d states, %.1fs' % (
        prop, tier, seed, agg['runs'], agg['ops'], len(agg['nontrivial']), len(agg['states']), total_wall))
    for l in lines:
        print(l)
    if harness_bad:
        for e in agg['errors'][:5]:
            print('HARNESS-ERROR', json.dumps(e)[:2000])
        if agg['runs'] == 0:
            print('HARNESS-ERROR no run completed')
        if code == 0:
            code = 2
    return code


def replay_file(path):
    rep = json.load(open(path))
    prop = rep['property']
    P = props.get(prop)
    if rep.get('mode') == 'hashseed':
        digs = []
        for hs in rep['hashseeds']:
            z = runner.Zygote(REPO, env={'PYTHONHASHSEED': str(hs)})
            r = z.run({'mode': 'replay', 'property': prop, 'ops': rep['ops'], 'opts': rep.get('opts') or {}})
            z.close()
            digs.append(r['events'][-1])
            print('  PYTHONHASHSEED=%s -> %s' % (hs, json.dumps(r['events'][-1])[:200]))
        if digs[0] != digs[1]:
            print('VIOLATION property=%s replay=%s' % (prop, path))
            print('  clause=%s' % rep['clause'])
            return 1
        print('not reproduced: identical under both hash seeds')
        return 0
    if rep.get('mode') == 'locale':
        from . import extras
        r = extras.c17_locale(prop, 'quick', 0, None)
        hit = [v for v in r.get('violations', []) if v['clause'] == rep['clause']]
        for c in r.get('samples', []):
            print('  ', json.dumps(c))
        if hit:
            print('VIOLATION property=%s replay=%s' % (prop, path))
            print('  clause=%s detail=%s' % (rep['clause'], json.dumps(hit[0]['detail'])[:400]))
            return 1
        print('not reproduced: clause %s does not occur' % rep['clause'])
        return 0
    if rep.get('mode') == 'threads':
        from . import c20
        rep['_path'] = path
        return c20.replay(rep)
    if P.replay:
        return P.replay(rep)
    m, viol = judges.evaluate(prop, rep['ops'], REPO, rep.get('opts') or P.opts)
    vv = [v for v in viol if v['clause'] == rep['clause']]
    for op, e in zip(rep['ops'], m['events']):
        o = {k: v for k, v in op.items() if k not in ('id', 'a')}
        print('  %-100s -> %s' % (json.dumps(o, default=str)[:100], e['r'] if e['r'] != 'exc' else 'exc:' + e['t']))
    print('digest %s (recorded %s) %s' % (m['digest'], rep.get('digest'), 'SAME' if m['digest'] == rep.get('digest') else 'DIFFERENT'))
    if vv:
        print('VIOLATION property=%s replay=%s' % (prop, path))
        print('  clause=%s detail=%s' % (rep['clause'], json.dumps(vv[0].get('detail'), default=str)[:600]))
        return 1
    print('not reproduced: clause %s does not occur' % rep['clause'])
    return 0

"""The simulated world: documents, their shadows, operation execution, observation.

Runs inside a forked child of a zygote that has imported the library.  Nothing here draws
randomness; generation (dsim.gen) owns the PRNG.
"""
import copy as _copy
import hashlib
import io
import json
import os
import sys
import xml.etree.ElementTree as ET

from . import spec
from .simfs import SimFS

BUDGET = 2_000_000          # function entries per public call


class SimHang(BaseException):
    pass


class SimInterrupt(BaseException):
    pass


class ClosedStream(io.StringIO):
    def write(self, s):
        raise ValueError('I/O operation on closed file.')


# ---------------------------------------------------------------------------------- library adapter
class Lib:
    def __init__(self):
        import musicxml.xmlelement.xmlelement as m
        import musicxml.parser.parser as parser
        import musicxml.exceptions as X2
        import musicxml.xmlelement.exceptions as X1
        self.m = m
        self.parser = parser
        fam = [TypeError, ValueError]
        for mod in (X1, X2):
            for k, v in vars(mod).items():
                if isinstance(v, type) and issubclass(v, Exception) and (
                        k.startswith('XMLElement') or k.startswith('XMLChildContainer') or k.startswith('XSD')):
                    fam.append(v)
        self.documented = tuple(fam)
        self.children_required = X2.XMLElementChildrenRequired
        self.path = os.path.dirname(os.path.dirname(m.__file__))

    def cls(self, name):
        return getattr(self.m, spec.class_name(name))


# ---------------------------------------------------------------------------------- shadow
class Node:
    __slots__ = ('sid', 'name', 'value', 'attrs', 'xsd_check', 'children', 'parent', 'el', 'ctor_attrs', 'home')

    def __init__(self, sid, name, value, attrs, xsd_check, el):
        self.sid = sid
        self.name = name
        self.value = value
        self.attrs = dict(attrs)
        self.xsd_check = xsd_check
        self.children = []
        self.parent = None
        self.el = el
        self.home = None

    def walk(self):
        yield self
        for c in self.children:
            yield from c.walk()

    def root(self):
        n = self
        while n.parent is not None:
            n = n.parent
        return n

    def fully_checked_path(self):
        """True if this node and all its ancestors are xsd_check=True (so the library ran its
        checks on it when the root was serialised)."""
        n = self
        while n is not None:
            if not n.xsd_check:
                return False
            n = n.parent
        return True


def schema_attr_name(elem_name, pyname):
    """Schema attribute name for a python-side name on this element, or None if undeclared."""
    for a in spec.attributes_of_element(elem_name):
        if spec.py_attr_name(a) == pyname:
            return a
    return None


def exc_info(e):
    return type(e).__name__


# ---------------------------------------------------------------------------------- world
class World:
    def __init__(self, lib, opts=None):
        self.lib = lib
        self.opts = opts or {}
        self.docs = {}
        self.removed = []          # shadow nodes removed / replaced out (should report no parent)
        self.fs = SimFS(self.opts.get('fs_encoding', 'utf-8'))
        self.events = []
        self.viol = []
        self.stats = {}
        self.states = set()
        self.cover = set()
        self.nsid = 0
        self.checkers = []
        self.stdout_closed = False
        self.async_exc_at = None
        self.entries = 0
        self.last_text = {}
        self._mon = False
        self.opi = -1
        self.cur_op = None
        self._nviol = {}
        self.async_in_to_string = None
        self._fs_seen = 0

    # ------------------------------------------------------------ helpers
    def count(self, key, n=1):
        self.stats[key] = self.stats.get(key, 0) + n

    def violate(self, prop, clause, detail=None):
        n = self._nviol.get(clause, 0)
        self._nviol[clause] = n + 1
        if n >= 3:          # a corrupted state repeats the same complaint at every step; keep the first three
            return
        self.viol.append({'property': prop, 'clause': clause, 'at': self.opi, 'detail': detail})

    def node(self, path):
        n = self.docs.get(path[0])
        if n is None:
            return None
        for i in path[1:]:
            if not isinstance(i, int) or i < 0 or i >= len(n.children):
                return None
            n = n.children[i]
        return n

    def path_of(self, node):
        p = []
        n = node
        while n.parent is not None:
            p.append(n.parent.children.index(n))
            n = n.parent
        for d, r in self.docs.items():
            if r is n:
                return [d] + p[::-1]
        return None

    def _home(self, parent):
        r = parent.root()
        for d, x in self.docs.items():
            if x is r:
                return d
        return None

    def _ancestors(self, node):
        n = node.parent
        while n is not None:
            yield n
            n = n.parent

    def new_node(self, name, value, attrs, xsd_check, el):
        self.nsid += 1
        return Node(self.nsid, name, value, attrs, xsd_check, el)

    # ------------------------------------------------------------ guarded library call
    def call(self, fn):
        """Run fn() with stdout/stderr captured and the function-entry budget armed.
        Returns ('ok', value) | ('exc', exception); captured output is put into self.cap."""
        if self.opts.get('light'):
            # thread mode: no global stream swapping, no monitoring (both are process-global)
            self.cap = ('', '')
            try:
                return ('ok', fn())
            except Exception as e:
                return ('exc', e)
        out = ClosedStream() if self.stdout_closed else io.StringIO()
        err = io.StringIO()
        so, se = sys.stdout, sys.stderr
        sys.stdout, sys.stderr = out, err
        self._arm()
        try:
            try:
                r = ('ok', fn())
            except (SimHang, SimInterrupt) as e:
                r = ('exc', e)
            except Exception as e:
                r = ('exc', e)
        finally:
            self._disarm()
            sys.stdout, sys.stderr = so, se
        self.cap = (out.getvalue(), err.getvalue())
        return r

    def _arm(self):
        self.entries = 0
        mon = sys.monitoring
        if not self._mon:
            try:
                mon.use_tool_id(mon.PROFILER_ID, 'dsim')
            except ValueError:
                pass
            w = self

            def cb(code, off):
                w.entries += 1
                if w.entries > BUDGET:
                    w.entries = 0
                    mon.set_events(mon.PROFILER_ID, 0)
                    raise SimHang()
                if w.async_exc_at is not None and w.entries == w.async_exc_at:
                    fn = code.co_filename
                    if 'musicxml' in fn:
                        w.async_exc_at = None
                        w.count('fault.async.exc')
                        # is the public to_string() on the stack?  (then the document text does not exist yet)
                        f = sys._getframe(1)
                        inside = False
                        while f is not None:
                            if f.f_code.co_name == 'to_string' and 'musicxml' in f.f_code.co_filename:
                                inside = True
                                break
                            f = f.f_back
                        w.async_in_to_string = inside
                        raise SimInterrupt()
                    w.async_exc_at += 1
            mon.register_callback(mon.PROFILER_ID, mon.events.PY_START, cb)
            self._mon = True
        if self.opts.get('budget', True):
            mon.set_events(mon.PROFILER_ID, mon.events.PY_START)

    def _disarm(self):
        sys.monitoring.set_events(sys.monitoring.PROFILER_ID, 0)

    # ------------------------------------------------------------ building elements
    def build(self, cs):
        """childspec -> Node (with live element). May raise what the library raises."""
        cls = self.lib.cls(cs['name'])
        kwargs = {k: v for k, v in (cs.get('attrs') or {}).items()}
        xc = cs.get('xsd_check', True)
        if cs.get('value') is not None:
            el = cls(cs['value'], xsd_check=xc, **kwargs)
        else:
            el = cls(xsd_check=xc, **kwargs)
        attrs = {}
        for k, v in kwargs.items():
            if v is None:
                continue
            attrs[schema_attr_name(cs['name'], k) or k.replace('_', '-')] = v
        n = self.new_node(cs['name'], cs.get('value'), attrs, xc, el)
        for kid in cs.get('kids') or []:
            kn = self.build(kid)
            el.add_child(kn.el)
            kn.parent = n
            n.children.append(kn)
        return n

    # ------------------------------------------------------------ op execution
    def execute(self, op):
        """Execute one op dict; returns the event (also appended to self.events)."""
        self.opi += 1
        self.cur_op = op
        kind = op['op']
        self.cap = ('', '')
        ev = {'i': self.opi, 'op': kind}
        for c in self.checkers:
            c.before(self, op)
        try:
            res = getattr(self, 'op_' + kind)(op)
        except _Skip as s:
            res = ('skip', str(s))
        if res[0] == 'ok':
            ev['r'] = 'ok'
            if res[1] is not None:
                ev['v'] = res[1]
        elif res[0] == 'exc':
            e = res[1]
            ev['r'] = 'exc'
            ev['t'] = type(e).__name__
            if len(res) > 2:
                ev['stage'] = res[2]
            self.count('exc.' + type(e).__name__)
        else:
            ev['r'] = 'skip'
            ev['why'] = res[1]
            self.count('skipped')
        if self.cap[0]:
            ev['stdout'] = True
        if self.cap[1]:
            ev['stderr'] = True
        self.count('op.' + kind)
        self.events.append(ev)
        self.last_exc = res[1] if res[0] == 'exc' else None
        for c in self.checkers:
            c.after(self, op, ev)
        return ev

    def _need(self, path):
        n = self.node(path)
        if n is None:
            raise _Skip('no node at %r' % (path,))
        return n

    def op_NEW(self, op):
        if op['doc'] in self.docs:
            raise _Skip('doc exists')
        r = self.call(lambda: self.build(op['c']))
        if r[0] == 'ok':
            self.docs[op['doc']] = r[1]
            return ('ok', None)
        return ('exc', r[1], 'construct')

    def detached_of(self, doc):
        """Nodes detached (removed / replaced out) from document `doc`, in order of detachment."""
        return [n for n in self.removed if n.home == doc]

    def _detached(self, k, doc):
        """k-th node detached from document `doc` earlier and still detached (re-use of a child).  Indexing per
        source document keeps a document's lineage self-contained (projection twins)."""
        pool = self.detached_of(doc)
        if not isinstance(k, int) or k < 0 or k >= len(pool):
            raise _Skip('no detached node %r of %r' % (k, doc))
        n = pool[k]
        if n.parent is not None or any(n is r for r in self.docs.values()):
            raise _Skip('node %d is attached again' % k)
        return n

    def op_ADD(self, op):
        parent = self._need(op['p'])
        if 'attached' in op:
            # fault: offer a child that is still attached elsewhere (only generated where the model says the offer
            # must be rejected); if the library accepts it the shadow is left alone and the event says so
            child = self.node(op['attached'])
            if child is None or child.parent is None or child is parent or any(x is child for x in self._ancestors(parent)):
                raise _Skip('no attached node')
            if 'fwd' in op and op['fwd'] is not None:
                r = self.call(lambda: parent.el.add_child(child.el, forward=op['fwd']))
            else:
                r = self.call(lambda: parent.el.add_child(child.el))
            if r[0] == 'ok':
                return ('ok', 'accepted-attached-child')
            return ('exc', r[1], 'add')
        if 'reuse' in op:
            child = self._detached(op['reuse'], op.get('reuse_doc', op['p'][0]))
            if child is parent or any(x is child for x in self._ancestors(parent)):
                raise _Skip('cycle')
            self.cap = ('', '')
        else:
            r = self.call(lambda: self.build(op['c']))
            if r[0] != 'ok':
                return ('exc', r[1], 'construct')
            child = r[1]
        cap0 = self.cap
        if 'fwd' in op and op['fwd'] is not None:
            r = self.call(lambda: parent.el.add_child(child.el, forward=op['fwd']))
        else:
            r = self.call(lambda: parent.el.add_child(child.el))
        self.cap = (cap0[0] + self.cap[0], cap0[1] + self.cap[1])
        if r[0] == 'ok':
            child.parent = parent
            parent.children.append(child)
            return ('ok', None)
        return ('exc', r[1], 'add')

    def op_REMOVE(self, op):
        parent = self._need(op['p'])
        i = op['i']
        if op.get('foreign'):
            # fault: remove an element that is not a child
            r = self.call(lambda: self.build(op['foreign']))
            if r[0] != 'ok':
                return ('exc', r[1], 'construct')
            stranger = r[1]
            r = self.call(lambda: parent.el.remove(stranger.el))
            return ('ok', None) if r[0] == 'ok' else ('exc', r[1], 'remove')
        if 'attached' in op:
            # fault: ask this element to remove a child that is attached to ANOTHER element
            other = self.node(op['attached'])
            if other is None or other.parent is None or other.parent is parent:
                raise _Skip('no such attached node')
            r = self.call(lambda: parent.el.remove(other.el))
            if r[0] == 'ok':
                return ('ok', 'removed-a-child-of-another-element')
            return ('exc', r[1], 'remove')
        if 'reuse' in op:
            # fault: remove a child that was detached earlier (removed or replaced out)
            stale = self._detached(op['reuse'], op.get('reuse_doc', op['p'][0]))
            r = self.call(lambda: parent.el.remove(stale.el))
            return ('ok', None) if r[0] == 'ok' else ('exc', r[1], 'remove')
        if i >= len(parent.children):
            raise _Skip('no child %d' % i)
        child = parent.children[i]
        r = self.call(lambda: parent.el.remove(child.el))
        if r[0] == 'ok':
            parent.children.pop(i)
            child.parent = None
            child.home = self._home(parent); self.removed.append(child)
            return ('ok', None)
        return ('exc', r[1], 'remove')

    def op_REPLACE(self, op):
        parent = self._need(op['p'])
        i = op['i']
        if 'raw' in op:
            # fault: the replacement is not an element at all (None, a string, a number)
            if i >= len(parent.children):
                raise _Skip('no child %d' % i)
            old = parent.children[i]
            raw = op['raw']
            r = self.call(lambda: parent.el.replace_child(old.el, raw))
            if r[0] == 'ok':
                return ('ok', 'accepted-non-element')
            return ('exc', r[1], 'replace')
        r = self.call(lambda: self.build(op['c']))
        if r[0] != 'ok':
            return ('exc', r[1], 'construct')
        new = r[1]
        cap0 = self.cap
        if op.get('foreign'):
            r2 = self.call(lambda: self.build(op['foreign']))
            if r2[0] != 'ok':
                return ('exc', r2[1], 'construct')
            old_el = r2[1].el
            r = self.call(lambda: parent.el.replace_child(old_el, new.el))
            return ('ok', None) if r[0] == 'ok' else ('exc', r[1], 'replace')
        if i >= len(parent.children):
            raise _Skip('no child %d' % i)
        old = parent.children[i]
        if op.get('by') == 'pred':
            r = self.call(lambda: parent.el.replace_child(lambda c: c is old.el, new.el))
        else:
            r = self.call(lambda: parent.el.replace_child(old.el, new.el))
        self.cap = (cap0[0] + self.cap[0], cap0[1] + self.cap[1])
        if r[0] == 'ok':
            parent.children[i] = new
            new.parent = parent
            old.parent = None
            old.home = self._home(parent); self.removed.append(old)
            return ('ok', None)
        return ('exc', r[1], 'replace')

    def op_DOT_SET(self, op):
        parent = self._need(op['p'])
        cname = op['name']                       # schema child name
        attr = 'xml_' + cname.replace('-', '_')
        v = op['v']
        existing = [c for c in parent.children if c.name == cname]
        if v['kind'] == 'element':
            r = self.call(lambda: self.build(v['c']))
            if r[0] != 'ok':
                return ('exc', r[1], 'construct')
            new = r[1]
            cap0 = self.cap
            r = self.call(lambda: setattr(parent.el, attr, new.el))
            self.cap = (cap0[0] + self.cap[0], cap0[1] + self.cap[1])
            if r[0] == 'ok' and new.name != cname:
                # an element of another class was offered to the shortcut and not refused: adopt what the library
                # actually did (conservation is judged by C06, acceptance by C01/C07/C19)
                try:
                    present = any(k is new.el for k in parent.el.get_children(ordered=False))
                except Exception:
                    present = False
                self.count('dot_set.foreign_element_not_refused')
                if not present:
                    # the pinned library treats the object as a *value*: it becomes the value of the existing child, or
                    # of a child of class `cname` it creates itself; the shadow follows
                    marker = ['element-object-as-value', new.name]
                    if existing:
                        existing[0].value = marker
                    else:
                        try:
                            kids = parent.el.get_children(ordered=False)
                        except Exception:
                            kids = []
                        known = {id(c.el) for c in parent.children}
                        for k in kids:
                            if id(k) not in known:
                                n2 = self.new_node(cname, marker, {}, True, k)
                                n2.parent = parent
                                parent.children.append(n2)
                    return ('ok', 'foreign-element-stored-as-value')
            if r[0] == 'ok':
                if existing:
                    old = existing[0]
                    parent.children[parent.children.index(old)] = new
                    old.parent = None
                    old.home = self._home(parent); self.removed.append(old)
                else:
                    parent.children.append(new)
                new.parent = parent
                return ('ok', None)
            return ('exc', r[1], 'dot_set')
        if v['kind'] == 'none':
            r = self.call(lambda: setattr(parent.el, attr, None))
            if r[0] == 'ok':
                if existing:
                    old = existing[0]
                    parent.children.remove(old)
                    old.parent = None
                    old.home = self._home(parent); self.removed.append(old)
                return ('ok', None)
            return ('exc', r[1], 'dot_set')
        # plain value
        val = v['value']
        r = self.call(lambda: setattr(parent.el, attr, val))
        if r[0] == 'ok' and val is None:
            # None means removal in the shortcut syntax
            if existing:
                old = existing[0]
                parent.children.remove(old)
                old.parent = None
                old.home = self._home(parent); self.removed.append(old)
            return ('ok', None)
        if r[0] == 'ok':
            if existing:
                existing[0].value = val
            else:
                # the library created the child itself; adopt it into the shadow
                kids = parent.el.get_children(ordered=False)
                known = {id(c.el) for c in parent.children}
                fresh = [k for k in kids if id(k) not in known]
                # adopt whatever the library created (normally exactly one child; none when it treated the
                # value as "nothing to set"); conservation is judged by the C06 checker, not here
                for k in fresh:
                    n = self.new_node(cname, val, {}, True, k)
                    n.parent = parent
                    parent.children.append(n)
            return ('ok', None)
        return ('exc', r[1], 'dot_set')

    def op_DOT_GET(self, op):
        node = self._need(op['p'])
        attr = 'xml_' + op['name'].replace('-', '_')
        r = self.call(lambda: getattr(node.el, attr))
        if r[0] == 'ok':
            v = r[1]
            if v is None:
                return ('ok', None)
            for i, c in enumerate(node.children):
                if c.el is v:
                    return ('ok', ['child', i, jsonable(getattr(v, 'value_', None))])
            return ('ok', ['other', type(v).__name__])
        return ('exc', r[1], 'dot_get')

    def op_ATTR_SET(self, op):
        node = self._need(op['p'])
        py = op['name']
        val = op['value']
        key = py.replace('_', '-') if op.get('spelling') == 'xml' else py      # the parser assigns under the XML name
        r = self.call(lambda: setattr(node.el, key, val))
        if r[0] == 'ok':
            sn = schema_attr_name(node.name, py) or py.replace('_', '-')
            if val is None:
                node.attrs.pop(sn, None)
            else:
                node.attrs[sn] = val
            return ('ok', None)
        return ('exc', r[1], 'attr_set')

    def op_ATTR_GET(self, op):
        node = self._need(op['p'])
        r = self.call(lambda: getattr(node.el, op['name']))
        if r[0] == 'ok':
            return ('ok', jsonable(r[1]))
        return ('exc', r[1], 'attr_get')

    def op_XSD_CHECK_SET(self, op):
        """el.xsd_check = value (a public property setter)."""
        node = self._need(op['p'])
        val = bool(op['value'])

        def f():
            node.el.xsd_check = val
        r = self.call(f)
        if r[0] == 'ok':
            node.xsd_check = val
            self._tainted = getattr(self, '_tainted', set())
            self._tainted.add(node.sid)       # its children were (partly) placed while unchecked
            return ('ok', None)
        return ('exc', r[1], 'xsd_check_set')

    def op_VALUE_SET(self, op):
        node = self._need(op['p'])
        val = op['value']

        def f():
            node.el.value_ = val
        r = self.call(f)
        if r[0] == 'ok':
            node.value = val
            return ('ok', None)
        return ('exc', r[1], 'value_set')

    def op_TO_STRING(self, op):
        node = self._need(op['p'])
        ic = bool(op.get('ic'))
        if ic:
            r = self.call(lambda: node.el.to_string(intelligent_choice=True))
        else:
            r = self.call(lambda: node.el.to_string())
        if r[0] == 'ok':
            text = r[1]
            self.last_text[tuple(op['p'])] = text
            self.text = text
            # object addresses can reach the output (the pinned library stores an element object given as a value
            # and prints its repr): scrub them, they differ from process to process
            return ('ok', hashlib.sha256(_scrub(text).encode('utf-8', 'surrogatepass')).hexdigest()[:16])
        self.text = None
        return ('exc', r[1], 'to_string')

    def op_CHECK(self, op):
        node = self._need(op['p'])
        if node.el.child_container_tree is None:
            return ('ok', None)
        ic = bool(op.get('ic'))
        r = self.call(lambda: node.el.child_container_tree.get_required_element_names(intelligent_choice=ic))
        if r[0] == 'ok':
            return ('ok', flatten_names(r[1]))
        return ('exc', r[1], 'check')

    def op_READ(self, op):
        node = self._need(op['p'])
        w = op['which']
        el = node.el
        if w == 'children_ordered':
            f = lambda: [c.name for c in el.get_children(ordered=True)]
        elif w == 'children_unordered':
            f = lambda: [c.name for c in el.get_children(ordered=False)]
        elif w == 'find_child':
            f = lambda: (lambda c: None if c is None else c.name)(el.find_child(spec.class_name(op['arg'])))
        elif w == 'find_children':
            f = lambda: len(el.find_children(spec.class_name(op['arg'])))
        elif w == 'possible_children_names':
            f = lambda: sorted(el.possible_children_names)
        elif w == 'get_parent':
            f = lambda: None if el.get_parent() is None else el.get_parent().name
        elif w == 'et_xml_element':
            f = lambda: el.et_xml_element.tag
        elif w == 'attributes':
            f = lambda: {k: jsonable(v) for k, v in el.attributes.items()}
        else:
            raise _Skip('unknown read ' + w)
        r = self.call(f)
        if r[0] == 'ok':
            return ('ok', r[1])
        return ('exc', r[1], 'read')

    def op_DEEPCOPY(self, op):
        if 'reuse' in op:
            node = self._detached(op['reuse'], op.get('reuse_doc'))
        else:
            node = self._need(op['p'])
        if op['doc'] in self.docs:
            raise _Skip('doc exists')
        r = self.call(lambda: _copy.deepcopy(node.el))
        if r[0] != 'ok':
            return ('exc', r[1], 'deepcopy')
        cp = r[1]
        mism = []
        shadow = self._shadow_copy(node, cp, mism)
        self.docs[op['doc']] = shadow
        if mism:
            self.count('deepcopy.shadow_mismatch')
        return ('ok', {'mismatch': mism} if mism else None)

    def _shadow_copy(self, node, el, mism):
        n = self.new_node(node.name, node.value, node.attrs, node.xsd_check, el)
        # deepcopy adds the children in the order of the source's get_children() view
        src_order = None
        try:
            src_kids = node.el.get_children()
            by_id = {id(c.el): c for c in node.children}
            if len(src_kids) == len(node.children) and all(id(k) in by_id for k in src_kids):
                src_order = [by_id[id(k)] for k in src_kids]
        except Exception:
            pass
        if src_order is None:
            src_order = list(node.children)
        try:
            kids = el.get_children(ordered=False)
        except Exception:
            kids = []
        if len(kids) != len(src_order) or any(k.name != s.name for k, s in zip(kids, src_order)):
            mism.append({'at': node.name, 'copy': [k.name for k in kids], 'source': [s.name for s in src_order]})
            # resync: follow the copy as it is, taking shadow data by name where possible
            pool = list(src_order)
            for k in kids:
                cand = [s for s in pool if s.name == k.name]
                if cand:
                    pool.remove(cand[0])
                    c = self._shadow_copy(cand[0], k, mism)
                else:
                    c = self.new_node(k.name, jsonable(k.value_), {}, bool(k.xsd_check), k)
                c.parent = n
                n.children.append(c)
            return n
        for s, k in zip(src_order, kids):
            c = self._shadow_copy(s, k, mism)
            c.parent = n
            n.children.append(c)
        return n

    def op_WRITE(self, op):
        root = self.docs.get(op['doc'])
        if root is None:
            raise _Skip('no doc')
        path = self.fs.mount + op['path']
        ic = bool(op.get('ic'))
        self.fs.install()
        try:
            if ic:
                r = self.call(lambda: root.el.write(path, intelligent_choice=True))
            else:
                r = self.call(lambda: root.el.write(path))
        finally:
            self.fs.uninstall()
        for k in self.fs.fired[self._fs_seen:]:
            self.count('fault.' + k)
        self._fs_seen = len(self.fs.fired)
        if self.fs.default_encoding != 'utf-8':
            self.count('fault.fs.encoding=' + self.fs.default_encoding)
        if r[0] == 'ok':
            return ('ok', None)
        return ('exc', r[1], 'write')

    def op_PARSE(self, op):
        if op['doc'] in self.docs:
            raise _Skip('doc exists')
        path = self.fs.mount + op['path']
        self.fs.install()
        try:
            r = self.call(lambda: self.lib.parser.parse_musicxml(path))
        finally:
            self.fs.uninstall()
        if r[0] != 'ok':
            return ('exc', r[1], 'parse')
        el = r[1]
        try:
            shadow = self._shadow_from_el(el)
        except Exception as e:     # harness could not walk the tree: keep the element, no shadow children
            shadow = self.new_node(getattr(el, 'name', '?'), None, {}, True, el)
        self.docs[op['doc']] = shadow
        return ('ok', None)

    def _shadow_from_el(self, el):
        n = self.new_node(el.name, jsonable(el.value_), {k: jsonable(v) for k, v in el.attributes.items()},
                          bool(el.xsd_check), el)
        for k in el.get_children(ordered=False):
            c = self._shadow_from_el(k)
            c.parent = n
            n.children.append(c)
        return n

    def op_FAULT(self, op):
        k = op['kind']
        p = op.get('params') or {}
        if k.startswith('fs.') and k not in ('fs.encoding', 'fs.prior', 'fs.clear'):
            if k == 'fs.readonly':
                self.fs.readonly.add(self.fs.mount + p['path'])
            elif k == 'fs.is_dir':
                self.fs.dirs.add(self.fs.mount + p['path'])
            else:
                self.fs.arm(k, p)
        elif k == 'fs.encoding':
            self.fs.default_encoding = p['encoding']
        elif k == 'fs.prior':
            self.fs.files[self.fs.mount + p['path']] = bytes.fromhex(p['hex'])
        elif k == 'fs.clear':
            self.fs.faults.clear()
        elif k.startswith('disk.'):
            from . import diskfaults
            path = self.fs.mount + p['path']
            if path not in self.fs.files:
                raise _Skip('no file')
            new = diskfaults.apply(k, self.fs.files[path], p)
            if new != self.fs.files[path]:
                self.fs.files[path] = new
                self.count('fault.' + k)
            else:
                self.count('fault.' + k + '.noop')
        elif k == 'stdout.closed':
            self.stdout_closed = bool(p.get('on', True))
        elif k == 'async.exc':
            self.async_exc_at = int(p['k'])
        else:
            raise _Skip('unknown fault ' + k)
        return ('ok', None)

    def op_FSPUT(self, op):
        """Harness op: store bytes in SimFS (the foreign-writer stub's output)."""
        self.fs.files[self.fs.mount + op['path']] = bytes.fromhex(op['hex']) if 'hex' in op else op['text'].encode('utf-8')
        return ('ok', None)

    def op_FSSTATE(self, op):
        return ('ok', self.fs.state(self.fs.mount + op['path']))

    def op_PAIR(self, op):
        """One abstract step rendered on two API surfaces (C15), executed atomically so that the
        minimiser can never give the two twin documents different programs."""
        out = {}
        order = ['explicit', 'shortcut'] if op.get('first', 'explicit') == 'explicit' else ['shortcut', 'explicit']
        caps = ['', '']
        for side in order:
            res = []
            for sub in op[side]:
                self.count('op.' + sub['op'])
                try:
                    r = getattr(self, 'op_' + sub['op'])(sub)
                except _Skip as sk:
                    r = ('skip', str(sk))
                caps[0] += self.cap[0]
                caps[1] += self.cap[1]
                if r[0] == 'ok':
                    res.append(['ok', r[1]])
                elif r[0] == 'exc':
                    res.append(['exc', type(r[1]).__name__, r[2] if len(r) > 2 else None])
                    self.count('exc.' + type(r[1]).__name__)
                    break
                else:
                    res.append(['skip', r[1]])
                    break
            out[side] = res
        self.cap = tuple(caps)
        return ('ok', out)

    def op_OBS(self, op):
        node = self._need(op['p'])
        o = self.observe(node, op.get('accept') or [], op.get('deep', True))
        return ('ok', o)

    # ------------------------------------------------------------ observation (never perturbs: forked)
    def cheap(self, node):
        """In-process, read-only part: views as indices into the shadow list, attrs, value."""
        el = node.el
        idx = {id(c.el): i for i, c in enumerate(node.children)}
        try:
            un = [idx.get(id(k), '?' + k.name) for k in el.get_children(ordered=False)]
        except Exception as e:
            un = ['!' + type(e).__name__]
        try:
            od = [idx.get(id(k), '?' + k.name) for k in el.get_children(ordered=True)]
        except Exception as e:
            od = ['!' + type(e).__name__]
        par = []
        for c in node.children:
            try:
                par.append(c.el.get_parent() is el)
            except Exception as e:
                par.append('!' + type(e).__name__)
        try:
            attrs = {k: jsonable(v) for k, v in el.attributes.items()}
        except Exception as e:
            attrs = '!' + type(e).__name__
        try:
            val = jsonable(el.value_)
        except Exception as e:
            val = '!' + type(e).__name__
        return {'cls': type(el).__name__, 'un': un, 'od': od, 'par': par, 'attrs': attrs, 'value': val,
                'check': bool(el.xsd_check)}

    def cheap_tree(self, node, cap=40):
        out = []
        for n in node.walk():
            out.append(self.cheap(n))
            if len(out) >= cap:
                break
        return out

    def verdict(self, el, ic=False):
        """to_string outcome as a structured value; run only in throw-away processes."""
        try:
            if ic:
                t = el.to_string(intelligent_choice=True)
            else:
                t = el.to_string()
            return ['text', _scrub(t)]
        except self.lib.children_required as e:
            return ['exc', type(e).__name__, self._required_names(el)]
        except BaseException as e:
            return ['exc', type(e).__name__]

    def _required_names(self, el):
        # first checked node (pre-order) whose container reports required names
        st = [el]
        while st:
            x = st.pop(0)
            try:
                if x.xsd_check and x.child_container_tree is not None:
                    r = flatten_names(x.child_container_tree.get_required_element_names())
                    if r:
                        return [x.name, sorted(set(r))]
                st = list(x.get_children()) + st
            except BaseException as e:
                return ['!' + type(e).__name__]
        return None

    def observe(self, node, accept=(), deep=True):
        """Full observation of a node in nested forks; the live process is not touched."""
        w = self

        def body():
            o = {'cheap': w.cheap_tree(node) if deep else [w.cheap(node)]}
            return o
        o = infork(body)
        o['ts'] = infork(lambda: self._quiet(lambda: w.verdict(node.el)))
        if node.el.child_container_tree is not None and node.xsd_check:
            o['req'] = infork(lambda: self._quiet(lambda: self._safe_req(node.el)))
        if deep:
            o['copy'] = infork(lambda: self._quiet(lambda: self._copy_verdict(node.el)))
        acc = {}
        for name in accept:
            acc[name] = infork(lambda: self._quiet(lambda: self._try_add(node, name)))
        if accept:
            o['accept'] = acc
        return o

    def _copy_verdict(self, el):
        """What copy.deepcopy(el).to_string() gives (a copy is an observation too)."""
        try:
            c = _copy.deepcopy(el)
        except BaseException as e:
            return ['copy-raised', type(e).__name__]
        v = self.verdict(c)
        if v[0] == 'text':
            import hashlib as _h
            return ['text', _h.sha256(v[1].encode('utf-8', 'surrogatepass')).hexdigest()[:12]]
        return v[:2]

    def _safe_req(self, el):
        try:
            return sorted(set(flatten_names(el.child_container_tree.get_required_element_names())))
        except BaseException as e:
            return ['!' + type(e).__name__]

    def _quiet(self, fn):
        so, se = sys.stdout, sys.stderr
        sys.stdout, sys.stderr = io.StringIO(), io.StringIO()
        try:
            return fn()
        finally:
            sys.stdout, sys.stderr = so, se

    def _try_add(self, node, name):
        try:
            child = self.build(default_childspec(name))
        except BaseException as e:
            return 'construct:' + type(e).__name__
        try:
            node.el.add_child(child.el)
            return 'ok'
        except BaseException as e:
            return type(e).__name__

    def c18_tainted(self, node):
        """True if the node's children were ever placed by a replace / forward add (the caller chose the
        slot), in which case C18 does not judge its serialised word."""
        return node.sid in getattr(self, '_tainted', ())

    # ------------------------------------------------------------ abstract state (reach measure)
    def note_state(self, node):
        try:
            ms = tuple(sorted(c.name for c in node.children))
            self.states.add(hashlib.md5(repr((node.name, ms)).encode()).hexdigest()[:12])
        except Exception:
            pass

    def digest(self):
        return hashlib.sha256(json.dumps(self.events, sort_keys=True, default=str).encode()).hexdigest()


class _Skip(Exception):
    pass


import re as _re
_ADDR = _re.compile(r'0x[0-9a-fA-F]{6,}')


def _scrub(text):
    return _ADDR.sub('0x?', text) if isinstance(text, str) and '0x' in text else text


class Checker:
    def before(self, w, op):
        pass

    def after(self, w, op, ev):
        pass

    def finish(self, w):
        pass


def flatten_names(x):
    out = []

    def rec(y):
        if y is None:
            return
        if isinstance(y, (list, tuple)):
            for z in y:
                rec(z)
        else:
            out.append(str(y))
    rec(x)
    return out


def jsonable(v):
    if v is None or isinstance(v, (bool, int, float, str)):
        return v
    return _scrub(repr(v))


_DEFAULT_VALUE = {}


def default_value(name):
    if name not in _DEFAULT_VALUE:
        g, _b = spec.element_value_exemplars(name)
        _DEFAULT_VALUE[name] = g[0] if g else None
    return _DEFAULT_VALUE[name]


def default_childspec(name, opaque=True):
    """A minimal child of the given element name: valid value if it has character content,
    xsd_check=False ('opaque') so its own incompleteness never pollutes the parent's verdict."""
    return {'name': name, 'value': default_value(name), 'attrs': {}, 'xsd_check': not opaque}


def infork(fn):
    """Run fn() in a forked copy of this process; return its JSON-able result."""
    r, wfd = os.pipe()
    pid = os.fork()
    if pid == 0:
        code = 0
        try:
            os.close(r)
            try:
                data = json.dumps(fn(), default=str).encode()
            except BaseException as e:     # noqa
                data = json.dumps(['!infork', type(e).__name__, str(e)[:200]]).encode()
            with os.fdopen(wfd, 'wb') as f:
                f.write(data)
        except BaseException:
            code = 1
        finally:
            os._exit(code)
    os.close(wfd)
    chunks = []
    while True:
        c = os.read(r, 1 << 16)
        if not c:
            break
        chunks.append(c)
    os.close(r)
    os.waitpid(pid, 0)
    if not chunks:
        return ['!infork', 'nodata']
    return json.loads(b''.join(chunks))

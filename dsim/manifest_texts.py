"""Texts for MANIFEST.json (level, trusted base, technique) per claimed property."""

_NOTE_COMMON = ('Trusted: the reference model (my reading of the pinned XSD: content automata, attribute tables, value '
                'exemplars; cross-checked against the repository\'s MusicXML files and, at development time, xmllint), '
                'the shadow bookkeeping of the harness, CPython 3.12 fork/sys.monitoring semantics. Sampling, not proof: '
                'a clean batch is evidence for the explored seeds only. Known findings are suppressed only when the '
                'frozen baseline snapshot shows the identical violation on the same history.')

_TECH_HIST = 'deterministic simulation: seeded operation-and-failure histories in pristine forks, judged step by step against a reference model built from the pinned XSD; ddmin + exact replay'

TEXT = {
    'C01': {
        'level': 'Seeded exploration of operation histories (adds in any order, forward adds, removes, replacements, dot assignments, rejected calls, both intelligent_choice values, nested documents) over all 94 element-content types; every successful to_string() is parsed and each checked element\'s child word is run through the content automaton of the pinned XSD. Exploration is the right level: the quantifier is an unbounded set of histories over 94 grammars; nothing here can be enumerated.',
        'ref': 'DESIGN.md section 6 C01', 'note': _NOTE_COMMON, 'technique': _TECH_HIST},
    'C06': {
        'level': 'Conservation invariant checked after every step of seeded histories against a shadow kept by the simulator (never derived from the library): ordered view is a permutation of the insertion view, insertion view equals successful adds minus removes with replacements substituted, parent links, removed children orphaned, serialised output holds each child once.',
        'ref': 'DESIGN.md section 6 C06', 'note': _NOTE_COMMON, 'technique': _TECH_HIST + '; conservation against a shadow'},
    'C07': {
        'level': 'After every accepted plain addition the child multiset must be extendable to a word of the content automaton (exact search on the DFA); seeded histories biased towards individually legal but jointly impossible children.',
        'ref': 'DESIGN.md section 6 C07', 'note': _NOTE_COMMON, 'technique': _TECH_HIST + '; completion search on the automaton'},
    'C12': {
        'level': 'Two workloads: unique-arrangement words (all arrangements enumerated exactly on the automaton, words <= 8) fed in seeded permutations, and arbitrary accepted histories followed by a still-compatible child; acceptance and resulting order are judged by the automaton.',
        'ref': 'DESIGN.md section 6 C12', 'note': _NOTE_COMMON, 'technique': _TECH_HIST},
    'C19': {
        'level': 'Union workload at a high rejection rate with stdout/stderr captured per call, a deterministic function-entry budget per call (sys.monitoring) as the hang detector and behavioural classification of every escaping exception (type families; AttributeError only for dot names the model does not know).',
        'ref': 'DESIGN.md section 6 C19', 'note': _NOTE_COMMON, 'technique': 'deterministic simulation with fault injection: rejected-call faults inside histories, stdout/stderr seam captured (and closed-stream fault), per-call step budget; exception classification'},
}

PENDING = {}

NOTES = ('All checks are `./check <id> quick|thorough`; exit 0 = held on everything explored (KNOWN-FINDING lines list '
         'the committed known findings that were hit), exit 1 = VIOLATION with a minimised replay file under '
         '/verif/replays, exit 2 = harness fault (never reported as success). VERIF_SEED selects the seed family. '
         'Every run executes in a fresh fork of a zygote that imported /repo\'s working tree, so checks always '
         'rebuild from the current tree; there is nothing to compile.')

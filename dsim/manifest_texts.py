"""Texts for MANIFEST.json (level, trusted base, technique) per claimed property."""

_NOTE_COMMON = ('Trusted: the reference model (my reading of the pinned XSD: content automata, attribute tables, value '
                'exemplars; cross-checked against the repository\'s MusicXML files and, at development time, xmllint), '
                'the shadow bookkeeping of the harness, CPython 3.12 fork/sys.monitoring semantics. Sampling, not proof: '
                'a clean batch is evidence for the explored seeds only. Known findings are suppressed only when the '
                'frozen baseline snapshot shows the identical violation on the same history.')

_TECH_HIST = 'deterministic simulation: seeded operation-and-failure histories in pristine forks, judged step by step against a reference model built from the pinned XSD; ddmin + exact replay'

TEXT = {
    'C01': {
        'level': 'Seeded exploration of operation histories (adds in any order, forward adds, removes, replacements, dot assignments, rejected calls, both intelligent_choice values, nested documents) over all 94 element-content types; every successful to_string() is parsed and each checked element\'s child word is run through the content automaton of the pinned XSD. Exploration is the right level: the quantifier is an unbounded set of histories over 94 grammars; nothing here can be enumerated.',
        'ref': 'DESIGN.md section 6 C01', 'note': _NOTE_COMMON, 'technique': _TECH_HIST},
    'C06': {
        'level': 'Conservation invariant checked after every step of seeded histories against a shadow kept by the simulator (never derived from the library): ordered view is a permutation of the insertion view, insertion view equals successful adds minus removes with replacements substituted, parent links, removed children orphaned, serialised output holds each child once.',
        'ref': 'DESIGN.md section 6 C06', 'note': _NOTE_COMMON, 'technique': _TECH_HIST + '; conservation against a shadow'},
    'C07': {
        'level': 'After every accepted plain addition the child multiset must be extendable to a word of the content automaton (exact search on the DFA); seeded histories biased towards individually legal but jointly impossible children.',
        'ref': 'DESIGN.md section 6 C07', 'note': _NOTE_COMMON, 'technique': _TECH_HIST + '; completion search on the automaton'},
    'C12': {
        'level': 'Two workloads: unique-arrangement words (all arrangements enumerated exactly on the automaton, words <= 8) fed in seeded permutations, and arbitrary accepted histories followed by a still-compatible child; acceptance and resulting order are judged by the automaton.',
        'ref': 'DESIGN.md section 6 C12', 'note': _NOTE_COMMON, 'technique': _TECH_HIST},
    'C19': {
        'level': 'Union workload at a high rejection rate with stdout/stderr captured per call, a deterministic function-entry budget per call (sys.monitoring) as the hang detector and behavioural classification of every escaping exception (type families; AttributeError only for dot names the model does not know).',
        'ref': 'DESIGN.md section 6 C19', 'note': _NOTE_COMMON, 'technique': 'deterministic simulation with fault injection: rejected-call faults inside histories, stdout/stderr seam captured (and closed-stream fault), per-call step budget; exception classification'},
}

PENDING = {}

NOTES = ('All checks are `./check <id> quick|thorough`; exit 0 = held on everything explored (KNOWN-FINDING lines list '
         'the committed known findings that were hit), exit 1 = VIOLATION with a minimised replay file under '
         '/verif/replays, exit 2 = harness fault (never reported as success). VERIF_SEED selects the seed family. '
         'Every run executes in a fresh fork of a zygote that imported /repo\'s working tree, so checks always '
         'rebuild from the current tree; there is nothing to compile.')

TEXT.update({
    'C04': {
        'level': 'Reference attribute store against all 441 element classes in turn: declared/undeclared names (other types\' attributes, misspellings, Python-side reserved names), certainly-valid and certainly-invalid exemplar values, set / overwrite / remove sequences through constructor keyword and dot assignment, interleaved with to_string(); output attributes compared in expanded-name form. The thorough tier offers every declared (element, attribute) pair; coverage of pairs is measured and reported.',
        'ref': 'DESIGN.md section 6 C04', 'note': _NOTE_COMMON + ' Values of uncertain status are never used.', 'technique': _TECH_HIST + '; reference attribute store'},
    'C10': {
        'level': 'Fault sequences: histories with a high rate of calls the library itself rejects (wrong child, maxOccurs, excluded choice, bad value/attribute, forward add, not-a-child, incomplete serialise), placed inside states with in-flight structure. Oracle: cheap before/after snapshot around every failing call, and an erasure twin - the same history with every failed call deleted, re-executed in a pristine fork - that must give identical outcomes for all surviving operations and identical forked observations (serialisation or missing-children verdict, acceptance vector).',
        'ref': 'DESIGN.md section 6 C10', 'note': _NOTE_COMMON, 'technique': 'deterministic simulation with fault injection (library-rejected calls as faults) + erasure twin in a pristine fork'},
    'C11': {
        'level': 'Histories with removals at any position; after every successful removal the live element and a rebuilt twin (fresh element + clones of the remaining children in the same relative order) are observed in nested forks: required-children verdict, serialisation, acceptance of each symbol.',
        'ref': 'DESIGN.md section 6 C11', 'note': _NOTE_COMMON, 'technique': _TECH_HIST + '; rebuild twin observed in nested forks'},
    'C13': {
        'level': '2-4 interleaved clients (seeded cooperative scheduler, one op = one step) on independent documents of the same and of different classes, incl. copies, failing calls, serialisations, an optional warm-up program, and a fixed canary built last. Oracles: every other document\'s cheap observation unchanged across each step; projection twin - each document\'s lineage alone in a pristine fork gives identical outcomes and forked observations; canary equals its pristine result.',
        'ref': 'DESIGN.md section 6 C13', 'note': _NOTE_COMMON, 'technique': 'deterministic simulation: seeded interleaving of client programs on shared process state + projection twins in pristine forks'},
    'C14': {
        'level': 'deepcopy at arbitrary points of histories (attributes by keyword and by dot, removed attributes, changed values, unchecked nodes, subtrees), then two owners mutate original and copy interleaved. Oracles at the copy (same serialisation or same failure type, original unchanged; observed in nested forks) and projection twins for both lineages afterwards.',
        'ref': 'DESIGN.md section 6 C14', 'note': _NOTE_COMMON, 'technique': 'deterministic simulation: two interleaved owners + projection twins; forked observation at the copy point'},
    'C15': {
        'level': 'One abstract program rendered on the explicit API and on the shortcut syntax on twin documents (atomic PAIR steps so that minimisation cannot desynchronise the surfaces): same rejection, same resulting element after every step, same serialisation; dot reads judged against the shadow and the model. Names biased to translation hazards.',
        'ref': 'DESIGN.md section 6 C15', 'note': _NOTE_COMMON, 'technique': _TECH_HIST + '; other-surface twin'},
    'C16': {
        'level': 'A mutator and a reader task share one tree under the seeded scheduler; the reader interposes to_string (whole tree / subtrees, ic on/off, twice in a row), final checks and all public reads between the mutator\'s operations. Text and attribute values from the XML Char range (markup, quotes, ]]>, control whitespace, NBSP, non-BMP). Oracles: well-formedness and exact string recovery, repeat equality, subtree infoset equality, and an erasure twin without the reads.',
        'ref': 'DESIGN.md section 6 C16', 'note': _NOTE_COMMON, 'technique': 'deterministic simulation: reader task interleaved with mutator by a seeded scheduler + reader-erasure twin'},
    'C18': {
        'level': 'Trees mixing checked and unchecked nodes: any class/number/order of children on unchecked nodes must never raise and must serialise in insertion order; byte identity with a checked twin for schema-valid words the twin accepts in order; checked nodes nested under unchecked ones still reject what the model says is illegal.',
        'ref': 'DESIGN.md section 6 C18', 'note': _NOTE_COMMON, 'technique': _TECH_HIST + '; checked/unchecked twin'},
})

TEXT.update({
    'C17': {
        'level': 'Fault enumeration per sampled document: for each seeded complete score (5-60 elements, half with non-ASCII text) every node is broken in turn for each kind of requirement (child, attribute) before write(); every default text encoding (utf-8, ascii, latin-1, cp1252) x every prior destination state (absent, empty, old score, arbitrary bytes) fault-free; asynchronous exceptions at sampled function entries inside write(); SimFS errors at open, at each write call, at close, short writes, ENOSPC, read-only, directory. Each case runs on a forked copy of the built document. Plus two real sub-interpreters (C.UTF-8 and LC_ALL=C -X utf8=0) that import, write and parse. Complete only relative to the sampled documents.',
        'ref': 'DESIGN.md section 6 C17', 'note': _NOTE_COMMON + ' SimFS is a model of open/write/close/replace/remove on one virtual mount.',
        'technique': 'deterministic simulation with fault injection: SimFS (in-memory file system with injected errors, short writes, default-encoding emulation), crash points = every node failing validation in turn + async exceptions at function entries (sys.monitoring), real-locale sub-interpreters'},
})

TEXT.update({
    'C09': {
        'level': 'Pipeline per run: writer (the library, or a foreign-writer stub that walks the reference model and uses every attribute form of the schema; its documents were cross-validated with xmllint during development) -> SimFS -> storage faults on the stored bytes (truncate, bit flip, zeroed / duplicated / swapped sectors, token rot, re-encoding, default-encoding change) -> parse_musicxml -> to_string. Fault-free and corrupting configurations are separate. Oracle: infoset of the stored bytes (xml.etree) vs infoset of the re-serialised tree.',
        'ref': 'DESIGN.md section 6 C09', 'note': _NOTE_COMMON + ' The valid-file half covers only documents the model generates (it cannot vouch for arbitrary real-world exports).',
        'technique': 'deterministic simulation with fault injection on the read seam: SimFS stored-byte corruption between write and read, foreign-writer stub, infoset refinement check'},
})

TEXT.update({
    'C20': {
        'level': 'Real OS threads run generated build-validate-serialise programs on their own documents; a baton scheduler driven by sys.settrace line events decides who runs. The single-pre-emption family named by the property (thread A parked at its k-th library line, B runs to completion, A resumes) is sampled in quick (half of the k inside class-level code) and swept completely for every sampled program pair in thorough; plus seeded PCT-style multi-switch schedules. Per thread the outcomes must equal those of the program alone in a cold process; shared attribute tables and a canary must equal the sequential run. Every schedule executes in a fresh fork of the cold zygote, so who fills the lazy tables first is part of the schedule.',
        'ref': 'DESIGN.md section 6 C20, section 3.6', 'note': _NOTE_COMMON + ' GIL threads, line granularity; C-level re-entrancy inside xml.etree is not explored.',
        'technique': 'deterministic simulation of thread schedules: baton-passed real threads, settrace line events as pre-emption points, complete single-pre-emption sweep per program pair + seeded multi-switch search, cold fork per schedule'},
})


# ---- final wording (supersedes the entries above where present)
TEXT['C06']['level'] = ('Conservation invariant checked after every step of seeded histories (emphasis on removal / replacement / forward adds after a particle was duplicated, re-homing by intelligent choice, re-use of detached children, rejected calls in between) against a shadow kept by the simulator: ordered view is a permutation of the insertion view, insertion view equals successful adds minus removes with replacements substituted, a same-name replacement takes the replaced child\'s place in the ordered view, parent links, removed children orphaned, serialised output holds each child once.')
TEXT['C12']['level'] = ('Two workloads: unique-arrangement words (all arrangements enumerated exactly on the automaton, words <= 8) fed in seeded permutations - every add accepted, ordered view and serialisation (plain and with intelligent choice) equal to that arrangement - and arbitrary accepted histories followed by a still-compatible child; acceptance, order and serialisability are judged by the automaton.')
TEXT['C13']['level'] += ' Schema-driven probes: for every derived/base simple-type pair and every complexContent extension of the XSD the base (or sibling) is used first, then a fresh element of the restricted type is offered what it must reject; removes addressed to a child of another document; xsd_check switched after construction.'
TEXT['C16']['level'] += ' Additionally 250 histories per run are re-executed under another PYTHONHASHSEED and must serialise identically (clause serialisation-depends-on-hash-seed), and a required attribute holding an accepted empty value must not be reported missing.'
TEXT['C17']['level'] += ' After a successful write the file is compared with to_string() before and after the write; parsing (also of damaged files) must behave identically under every default encoding. The mount is a real scratch directory, so implementations through os.open / tempfile / os.replace are judged like builtins.open ones.'
TEXT['C18']['level'] += ' From a checked serialisation root every element that is itself checked must be valid, also below unchecked elements (the setting is per element); children that left a checked element are transplanted into unchecked ones; write() and deepcopy of unchecked trees must not raise.'
TEXT['C09']['level'] += ' Foreign documents also come in UTF-16, ISO-8859-1/-2, windows-1252 and with a BOM, padded with comments so that read-block boundaries move over the document; pinned excerpts of a real-world export shipped with the repository are part of the inputs.'
TEXT['C20']['level'] = ('Real OS threads run generated build-validate-serialise programs (incl. misuse and refused validations) on their own documents; a baton scheduler driven by sys.settrace line events decides who runs. The single-pre-emption family named by the property (thread A parked at its k-th library line, B runs to completion, A resumes) is swept over every first-use window - every invocation that executes a line for the first time for its owner class, and the first invocation of every method on every object shared between two passes of the program - completely in thorough (plus every k for two small pairs) and up to a cap in quick; plus seeded PCT-style multi-switch schedules for pairs and triples. Per thread the outcomes must equal those of the program alone in a cold process; shared attribute tables and a canary must equal the sequential run. Every schedule executes in a fresh fork of the cold zygote.')

"""C20 check: independent documents built concurrently from several threads.

Per program pair (A, B): references = each program alone in a cold process, and A;B sequentially
(+canary, shared tables).  Schedules: the single-pre-emption family (A parked at its k-th library
line, B runs to completion, A resumes) - sampled in quick, complete in thorough - plus seeded
multi-switch (PCT-style, biased to class-level code).  Every schedule runs in a fresh fork."""
import concurrent.futures as cf
import hashlib
import json
import multiprocessing
import os
import random
import time

from . import runner, known, props, shrink, spec
from .gen import hash64
from .workloads import CANARY

VERIF = os.path.dirname(os.path.dirname(os.path.abspath(__file__)))
REPO = os.environ.get('DSIM_REPO', '/repo')
NPROC = int(os.environ.get('DSIM_JOBS', '16'))
REPLAYS = os.environ.get('DSIM_REPLAYS_DIR') or os.path.join(VERIF, 'replays')
EVIDENCE = os.environ.get('DSIM_EVIDENCE_DIR') or os.path.join(VERIF, 'evidence')

# class choice biased to overlap in lazily filled tables
PAIRS_FIXED = [('note', 'note'), ('note', 'rest'), ('direction', 'note'), ('score-partwise', 'part'), ('harmony', 'note'),
               ('measure', 'attributes'), ('lyric', 'note'), ('barline', 'ending'), ('credit', 'credit'), ('pitch', 'unpitched')]


def gen_program(z, seed, elem, doc, prop='C20', small=False):
    r = z.run({'mode': 'gen', 'property': prop, 'seed': seed, 'index': 0,
               'cfg': {'element': elem, 'doc': doc, 'max_ops': 200, 'small': small}})
    return [{k: v for k, v in op.items()} for op in r['ops']]


def job(programs, schedule, classes, canary=True, record_hot=False):
    j = {'mode': 'threads', 'programs': programs, 'schedule': schedule, 'classes': classes, 'timeout': 120}
    if canary:
        j['canary'] = [dict(o) for o in CANARY]
    if record_hot:
        j['record_hot'] = True
    return j


def references(z, A, B, classes, C=None):
    soloA = z.run(job([A], {'kind': 'none'}, classes, canary=False, record_hot=True))
    soloB = z.run(job([B], {'kind': 'none'}, classes, canary=False))
    progs = [A, B] + ([C] if C is not None else [])
    seq = z.run(job(progs, {'kind': 'none'}, classes))
    if C is not None:
        soloC = z.run(job([C], {'kind': 'none'}, classes, canary=False))
        return soloA, soloB, seq, soloC
    return soloA, soloB, seq


def judge(res, soloA, soloB, seq, soloC=None):
    """-> list of (clause, detail)"""
    out = []
    if res.get('failed'):
        return [('harness', {'failed': res['failed']})]
    trio = (('T0', soloA), ('T1', soloB)) + ((('T2', soloC),) if soloC is not None else ())
    for name, solo in trio:
        a, b = res['threads'][name], solo['threads']['T0']
        if a != b:
            k = 0
            while k < len(a) and k < len(b) and a[k] == b[k]:
                k += 1
            out.append(('thread-outcome-differs', {'thread': name, 'op_index': k,
                                                   'concurrent': a[k] if k < len(a) else None, 'alone': b[k] if k < len(b) else None}))
            return out
    if res.get('tables') != seq.get('tables'):
        diff = sorted(k for k in seq['tables'] if res['tables'].get(k) != seq['tables'].get(k))
        out.append(('shared-table-differs', {'classes': diff[:5]}))
    elif res.get('canary') != seq.get('canary'):
        out.append(('post-state-differs', {}))
    return out


def canon(c, d):
    return json.dumps([c, d], sort_keys=True, default=str)


def work(args):
    pair_id, A, B, classes, schedules, baseline, known_clauses = args[:7]
    C = args[7] if len(args) > 7 else None
    z = runner.zygote(REPO)
    refs = references(z, A, B, classes, C)
    soloA, soloB, seq = refs[:3]
    progs = [A, B] + ([C] if C is not None else [])
    out = {'runs': 0, 'switch_sites': set(), 'viol': [], 'known': {}, 'switches': 0, 'lines': 0, 'interleavings': set(),
           'fired': 0, 'errors': []}
    base_refs = None
    reported = {}
    for sch in schedules:
        try:
            r = z.run(job(progs, sch, classes))
        except runner.HarnessError as e:
            out['errors'].append(str(e)[:500])
            runner.close_all()
            z = runner.zygote(REPO)
            continue
        out['runs'] += 1
        out['lines'] += r['lines']
        out['switches'] += len(r['switches'])
        if r['switches']:
            out['fired'] += 1
            out['interleavings'].add(hashlib.md5(json.dumps(r['switches']).encode()).hexdigest()[:12])
        for s in r['switches']:
            out['switch_sites'].add('%s:%s' % (s[3], s[4]))
        vs = judge(r, *refs)
        for clause, detail in vs:
            if clause == 'harness':
                out['errors'].append(json.dumps(detail))
                continue
            is_known = False
            if baseline and clause in known_clauses:
                zb = runner.zygote(baseline)
                if base_refs is None:
                    base_refs = references(zb, A, B, classes, C)
                rb = zb.run(job(progs, sch, classes))
                vb = judge(rb, *base_refs)
                is_known = any(canon(c2, d2) == canon(clause, detail) for c2, d2 in vb)
            if is_known:
                out['known'][clause] = out['known'].get(clause, 0) + 1
            else:
                if reported.get(clause, 0) < 1:
                    reported[clause] = reported.get(clause, 0) + 1
                    out['viol'].append(minimise_and_write(z, pair_id, A, B, classes, sch, r, clause, detail, C))
                else:
                    out['viol_more'] = out.get('viol_more', 0) + 1
    runner.close_all()
    out['switch_sites'] = sorted(out['switch_sites'])
    out['interleavings'] = sorted(out['interleavings'])
    out['solo_lines'] = soloA['per_thread_lines']['T0']
    return out


def minimise_and_write(z, pair_id, A, B, classes, sch, r, clause, detail, C=None):
    if C is not None:
        # three threads: keep the schedule as recorded (explicit switch list), no program minimisation
        sw = [[s[0], s[1], s[2]] for s in r['switches']]
        rep = {'property': 'C20', 'clause': clause, 'mode': 'threads', 'pair': pair_id, 'programs': [A, B, C],
               'schedule': {'kind': 'list', 'switches': sw}, 'classes': classes, 'original_schedule': sch,
               'switch_points': r['switches'], 'observation': {'clause': clause, 'detail': detail}, 'dsim_version': 1}
        os.makedirs(REPLAYS, exist_ok=True)
        name = 'C20-%s.json' % hashlib.sha256(json.dumps([clause, A, B, C, sw], sort_keys=True, default=str).encode()).hexdigest()[:16]
        path = os.path.join(REPLAYS, name)
        with open(path, 'w') as f:
            json.dump(rep, f, indent=1, default=str)
        return {'clause': clause, 'replay': path, 'detail': detail, 'len': len(A) + len(B) + len(C), 'schedule': rep['schedule']}
    # explicit switch list: replay needs no PRNG
    sw = [[s[0], s[1], s[2]] for s in r['switches']]
    sched = {'kind': 'list', 'switches': sw}

    def fails(Bc, Ac=None, sc=None):
        Ax = Ac if Ac is not None else A
        sx = sc if sc is not None else sched
        try:
            sA, sB, sq = references(z, Ax, Bc, classes)
            rr = z.run(job([Ax, Bc], sx, classes))
        except runner.HarnessError:
            return False
        return any(c == clause for c, _d in judge(rr, sA, sB, sq))

    Bm = B
    if fails(B):
        Bm, _n = shrink.ddmin(B, lambda c: bool(c) and c[0]['op'] == 'NEW' and fails(c), budget_s=25, max_tests=60)
        # drop switches
        cur = list(sw)
        i = 0
        while i < len(cur) and len(cur) > 1:
            cand = cur[:i] + cur[i + 1:]
            if fails(Bm, sc={'kind': 'list', 'switches': cand}):
                cur = cand
            else:
                i += 1
        sched = {'kind': 'list', 'switches': cur}
    rep = {'property': 'C20', 'clause': clause, 'mode': 'threads', 'pair': pair_id, 'programs': [A, Bm], 'schedule': sched,
           'classes': classes, 'original_schedule': sch, 'switch_points': r['switches'],
           'observation': {'clause': clause, 'detail': detail}, 'dsim_version': 1}
    os.makedirs(REPLAYS, exist_ok=True)
    name = 'C20-%s.json' % hashlib.sha256(json.dumps([clause, A, Bm, sched], sort_keys=True, default=str).encode()).hexdigest()[:16]
    path = os.path.join(REPLAYS, name)
    with open(path, 'w') as f:
        json.dump(rep, f, indent=1, default=str)
    return {'clause': clause, 'replay': path, 'detail': detail, 'len': len(A) + len(Bm), 'schedule': sched}


def replay(rep):
    z = runner.zygote(REPO)
    progs = rep['programs']
    A, B = progs[0], progs[1]
    C = progs[2] if len(progs) > 2 else None
    refs = references(z, A, B, rep['classes'], C)
    r = z.run(job(progs, rep['schedule'], rep['classes']))
    r2 = z.run(job(progs, rep['schedule'], rep['classes']))
    print('switch points:', json.dumps(r['switches']))
    print('deterministic (two executions, same digest):', r['digest'] == r2['digest'])
    vs = judge(r, *refs)
    runner.close_all()
    for c, d in vs:
        if c == rep['clause']:
            print('VIOLATION property=C20 replay=%s' % rep.get('_path', '?'))
            print('  clause=%s detail=%s' % (c, json.dumps(d, default=str)[:600]))
            return 1
    print('not reproduced: clause %s does not occur' % rep['clause'])
    return 0


def run(prop, tier, seed):
    from . import driver
    t0 = time.time()
    P = props.get(prop)
    kf = known.load()
    baseline = known.baseline_path(kf)
    known_clauses = set(known.clauses_for(prop, kf))
    rng = random.Random(hash64(seed, 'C20', 'pairs'))
    z = runner.zygote(REPO)
    npairs = P.cfg[tier]['pairs']
    small = bool(P.cfg[tier].get('small'))
    all_k_pairs = P.cfg[tier].get('all_k_pairs', 0)
    pairs = []
    fixed = list(PAIRS_FIXED)
    rng.shuffle(fixed)
    for i in range(npairs):
        if i < len(fixed) and rng.random() < 0.7:
            ea, eb = fixed[i]
        else:
            ea = rng.choice(spec.ELEMENT_CONTENT_ELEMENTS)
            eb = ea if rng.random() < 0.5 else rng.choice(spec.ELEMENT_CONTENT_ELEMENTS)
        if i % 3 == 1:
            # lazy-table probe programs (many classes, every simple-type kind), the same in both threads
            A = gen_program(z, hash64(seed, 'C20', i, 'A'), None, 'a', prop='C20probe', small=small or i < all_k_pairs)
            B = [dict(op) for op in A]
            ea = eb = 'probe-program'
            classes = sorted({op['c']['name'] for op in A if op['op'] == 'NEW'})[:30] + ['note', 'pitch']
            pairs.append((i, A, B, classes, ea, eb))
            continue
        A = gen_program(z, hash64(seed, 'C20', i, 'A'), ea, 'a0', small=small or i < all_k_pairs)
        if i % 2 == 0:
            # the same program in both threads: whatever A is initialising, B needs too
            B = [dict(op) for op in A]
            eb = ea
        else:
            B = gen_program(z, hash64(seed, 'C20', i, 'B'), eb, 'b0', small=small)
        classes = sorted({ea, eb, 'note', 'pitch'})
        pairs.append((i, A, B, classes, ea, eb))
    tasks = []
    total_sched = 0
    per_pair = {}
    for (i, A, B, classes, ea, eb) in pairs:
        solo = z.run(job([A], {'kind': 'none'}, classes, canary=False, record_hot=True))
        n = solo.get('lines_pass1') or solo['per_thread_lines']['T0']
        hot = [h for h in solo.get('hot', []) if h <= n]
        first = sorted(set(solo.get('first', [])) | set(solo.get('shared_first', [])))
        first = [f for f in first if f <= n]
        r2 = random.Random(hash64(seed, 'C20', i, 'k'))
        window_complete = True
        if P.cfg[tier].get('all_k') or (i < P.cfg[tier].get('all_k_pairs', 0)):
            ks = list(range(1, n + 1))
            exhaustive = True
        else:
            # complete sweep of the first execution of every (file, line, owner class) - the first use of each
            # class, where lazily initialised shared state is filled - plus a seeded sample of the rest
            want = P.cfg[tier]['k_per_pair']
            cap = P.cfg[tier].get('window_cap')
            scale = float(os.environ.get('DSIM_SCALE', '1') or 1)
            if scale != 1 and cap:
                cap = max(200, int(cap * scale))
            ks = set(first)
            if cap and len(ks) > cap:
                ks = set(r2.sample(sorted(ks), cap))
                window_complete = False
            else:
                window_complete = True
            if hot:
                for _ in range(want // 2):
                    ks.add(r2.choice(hot))
            target = min(n, len(ks) + want // 2)
            while len(ks) < target:
                ks.add(r2.randint(1, n))
            ks = sorted(ks)
            exhaustive = False
        scheds = [{'kind': 'single', 'k': k} for k in ks]
        for j in range(P.cfg[tier]['pct_per_pair']):
            scheds.append({'kind': 'pct', 'seed': hash64(seed, 'C20', i, 'pct', j), 'depth': r2_depth(seed, i, j),
                           'p': 0.0005, 'p_hot': 0.02})
        per_pair[i] = {'elements': [ea, eb], 'lines_of_A_alone': n, 'hot_lines': len(hot), 'single_preemptions': len(ks),
                       'first_executions_of_a_line_per_owner_class': len(first), 'first_execution_sweep_complete': window_complete,
                       'same_program_in_both_threads': i % 2 == 0,
                       'exhaustive_single_preemption': exhaustive, 'ops': [len(A), len(B)]}
        total_sched += len(scheds)
        chunk = max(20, len(scheds) // (NPROC * 2) or 1)
        for s in range(0, len(scheds), chunk):
            tasks.append((i, A, B, classes, scheds[s:s + chunk], baseline, known_clauses))
    # three threads (thorough): seeded multi-switch schedules over triples built from the pairs
    ntri = P.cfg[tier].get('triples', 0)
    for t in range(ntri):
        (i, A, B, classes, ea, eb) = pairs[t % len(pairs)]
        (_i2, A2, _B2, classes2, ea2, _eb2) = pairs[(t + 1) % len(pairs)]
        C = [dict(op, doc=('c' + str(op['doc'])) if 'doc' in op else None) if False else dict(op) for op in A2]
        scheds = [{'kind': 'pct', 'seed': hash64(seed, 'C20', 'tri', t, j), 'depth': 2 + j % 4, 'p': 0.0006, 'p_hot': 0.03}
                  for j in range(P.cfg[tier].get('pct_per_triple', 200))]
        per_pair['triple%d' % t] = {'elements': [ea, eb, ea2], 'threads': 3, 'schedules': len(scheds)}
        total_sched += len(scheds)
        cl3 = sorted(set(classes) | set(classes2))
        chunk = max(20, len(scheds) // NPROC or 1)
        for s0 in range(0, len(scheds), chunk):
            tasks.append((100 + t, A, B, cl3, scheds[s0:s0 + chunk], baseline, known_clauses, C))
    runner.close_all()
    agg = {'runs': 0, 'switch_sites': set(), 'viol': [], 'known': {}, 'switches': 0, 'lines': 0, 'interleavings': set(),
           'fired': 0, 'errors': []}
    ctx = multiprocessing.get_context('fork')
    with cf.ProcessPoolExecutor(max_workers=NPROC, mp_context=ctx) as ex:
        for r in ex.map(work, tasks):
            agg['runs'] += r['runs']
            agg['switches'] += r['switches']
            agg['lines'] += r['lines']
            agg['fired'] += r['fired']
            agg['switch_sites'].update(r['switch_sites'])
            agg['interleavings'].update(r['interleavings'])
            agg['viol'].extend(r['viol'])
            agg['errors'].extend(r['errors'])
            for k, v in r['known'].items():
                agg['known'][k] = agg['known'].get(k, 0) + v
    # ---- determinism sample: the same schedules again under another PYTHONHASHSEED (fresh interpreter)
    det = {'rerun': 0, 'mismatch': 0}
    try:
        z1 = runner.Zygote(REPO)
        z2 = runner.Zygote(REPO, env={'PYTHONHASHSEED': '12345'})
        (i0, A0, B0, classes0, _ea, _eb) = pairs[0]
        for sch in ({'kind': 'single', 'k': 50}, {'kind': 'single', 'k': 777}, {'kind': 'pct', 'seed': 5, 'depth': 3, 'p': 0.001, 'p_hot': 0.02}):
            d1 = z1.run(job([A0, B0], sch, classes0))['digest']
            d2 = z2.run(job([A0, B0], sch, classes0))['digest']
            det['rerun'] += 1
            if d1 != d2:
                det['mismatch'] += 1
        z1.close()
        z2.close()
    except runner.HarnessError as e:
        agg['errors'].append('determinism sample: ' + str(e)[:300])
    if det['mismatch']:
        agg['errors'].append('non-deterministic thread schedules: %d of %d digests differ' % (det['mismatch'], det['rerun']))
    # ---- report
    lines = []
    code = 0
    for f in known.findings_for(prop, kf):
        lines.append('KNOWN-FINDING: property=%s %s %s (hit %dx this run)' % (prop, f['clause'], f['what'], agg['known'].get(f['clause'], 0)))
    seen = set()
    for v in agg['viol']:
        if v['clause'] in seen:
            continue
        seen.add(v['clause'])
        lines.append('VIOLATION property=%s replay=%s' % (prop, v['replay']))
        lines.append('  clause=%s schedule=%s detail=%s' % (v['clause'], json.dumps(v['schedule'])[:200], json.dumps(v['detail'], default=str)[:300]))
        code = 1
    wall = time.time() - t0
    samples = []
    for (i, A, B, classes, ea, eb) in pairs[:2]:
        samples.append({'pair': i, 'elements': [ea, eb], 'program_A': driver.brief_ops(A)[:12], 'program_B': driver.brief_ops(B)[:12],
                        'schedules': ['single pre-emption of A at its k-th library line, B runs to completion', 'PCT multi-switch']})
    ev = {
        'property_id': prop, 'tier': tier, 'seed': seed, 'level': P.level,
        'coverage': {
            'evaluations': agg['runs'],
            'distinct_nontrivial': len(agg['interleavings']),
            'rule': P.rule,
            'samples': samples,
            'program_pairs': per_pair,
            'schedules_executed': agg['runs'],
            'schedules_with_a_switch': agg['fired'],
            'thread_switches': agg['switches'],
            'distinct_preemption_sites_file_line': len(agg['switch_sites']),
            'traced_library_lines_executed': agg['lines'],
            'simulated_time': 'no clock in the system under test; time = traced library line events: %d' % agg['lines'],
            'runs_per_hour': int(agg['runs'] / max(wall, 1e-6) * 3600),
            'seeds_per_hour': int(agg['runs'] / max(wall, 1e-6) * 3600),
            'faults_fired': {'sched.preempt': agg['fired'], 'sched.switch': agg['switches']},
            'distinct_interleavings': len(agg['interleavings']),
            'known_findings_hit': agg['known'],
            'determinism_sample': det,
            'exhaustive': False,
            'exhaustive_note': 'the single-pre-emption family is swept completely for the sampled program pairs in the thorough tier (see program_pairs[*].exhaustive_single_preemption); the set of program pairs is a sample',
            'real_vs_stub': props.REAL_VS_STUB,
        },
        'assumptions': ['GIL threads, line granularity (sys.settrace line events inside musicxml/ and verysimpletree/ are the only pre-emption points)',
                        'known-finding guard baseline = %s' % (kf['baseline']['file'] if kf.get('baseline') else 'none'),
                        'library imported from %s' % REPO],
        'wall_s': round(wall, 2),
        'violations': len(seen),
    }
    harness_bad = bool(agg['errors']) or agg['runs'] == 0
    if harness_bad:
        ev['coverage']['harness_errors'] = agg['errors'][:5]
    os.makedirs(EVIDENCE, exist_ok=True)
    tmp = os.path.join(EVIDENCE, '.C20.tmp')
    with open(tmp, 'w') as f:
        json.dump(ev, f, indent=1, default=str)
    os.replace(tmp, os.path.join(EVIDENCE, 'C20.json'))
    print('dsim %s %s seed=%d: %d schedules over %d program pairs, %d with a switch, %d distinct interleavings, %d pre-emption sites, %.1fs' % (
        prop, tier, seed, agg['runs'], len(pairs), agg['fired'], len(agg['interleavings']), len(agg['switch_sites']), wall))
    for l in lines:
        print(l)
    if harness_bad:
        for e in agg['errors'][:3]:
            print('HARNESS-ERROR', e[:1000])
        if code == 0:
            code = 2
    return code


def r2_depth(seed, i, j):
    return 1 + hash64(seed, 'C20', i, j, 'depth') % 4

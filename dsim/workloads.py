"""Per-property workloads (which programs run, under which swarm configuration) and the in-run
checkers that judge them."""
from . import spec, gen, checkers
from .gen import Kit


def checkers_for(prop, opts):
    c = [checkers.Reach()]
    if opts.get('twin') and prop != 'C16':
        # twin replays are compared event by event; their own in-run verdicts are not used (C16's checker performs
        # extra serialisations of its own, so it stays on to keep main run and twin alike)
        return c
    table = {
        'C01': [checkers.C01ValidOutput],
        'C06': [checkers.C06Conservation],
        'C07': [checkers.C07NoDeadEnd],
        'C12': [checkers.C12Compatible, checkers.C12Unique],
        'C19': [checkers.C19Documented],
        'C04': [checkers.C04Attributes],
        'C10': [checkers.C10Snapshot],
        'C11': [checkers.C11Rebuild],
        'C13': [checkers.C13Others],
        'C14': [checkers.C14Copy],
        'C15': [checkers.C15Surfaces],
        'C16': [checkers.C16Serialise],
        'C18': [checkers.C18Unchecked],
        'C17': [checkers.C17Write],
        'C09': [checkers.C09Parse],
    }
    for k in table.get(prop, []):
        c.append(k())
    for name in opts.get('extra_checkers', []):
        c.append(getattr(checkers, name)())
    return c


def swarm(rng, cfg):
    """Per-run configuration drawn from the seed (swarm style)."""
    c = {
        'p_opaque': rng.choice([0.6, 0.8, 0.95, 1.0]),
        'p_attrs': rng.choice([0.0, 0.2, 0.5]),
        'p_ic': rng.choice([0.0, 0.25, 0.6]),
        'p_deep': rng.choice([0.0, 0.15, 0.35]),
        'max_depth': rng.choice([1, 2, 2, 3]),
        'p_final_serialise': rng.choice([0.4, 0.8, 1.0]),
    }
    # random subset of fault kinds enabled
    w = {}
    for k in ('add_bad', 'add_foreign', 'attr_bad', 'value_bad', 'remove_foreign'):
        if rng.random() < 0.35:
            w[k] = 0.0
    for k in ('to_string_ic', 'check_ic'):
        if c['p_ic'] == 0.0:
            w[k] = 0.0
    if rng.random() < 0.3:
        w['remove'] = 4
        w['replace'] = 2
    c['weights'] = w
    c.update(cfg)
    if cfg.get('weights'):
        ww = dict(w)
        ww.update(cfg['weights'])
        c['weights'] = ww
    return c


def build(prop, rng, w, cfg, index):
    fn = globals().get('wl_' + prop, wl_history)
    return fn(rng, w, swarm(rng, cfg), index)


def wl_history(rng, w, cfg, index):
    kit = Kit(rng, w, cfg)
    nact = cfg.get('actors') or rng.choice([1, 1, 1, 2])
    elems = gen.pick_elements(rng, nact, index)
    progs = [gen.prog_history(kit, a, 'd%d' % a, elems[a], cfg) for a in range(nact)]
    return gen.interleave(rng, progs), {'elements': elems, 'actors': nact, 'cfg': _brief(cfg)}


def wl_C12(rng, w, cfg, index):
    kit = Kit(rng, w, cfg)
    elem = gen.pick_elements(rng, 1, index)[0]
    if rng.random() < 0.5:
        return prog_unique_permutation(kit, 0, 'd0', elem, cfg), {'elements': [elem], 'shape': 'unique_permutation'}
    return gen.interleave(rng, [gen.prog_history(kit, 0, 'd0', elem, cfg)]), {'elements': [elem], 'shape': 'history'}


def prog_unique_permutation(kit, actor, doc, elem, cfg):
    """C12 (a): a valid word whose multiset has exactly one arrangement (as a name sequence), fed in a
    seeded permutation."""
    rng = kit.rng
    model = spec.model_for_element(elem)
    word = None
    for _ in range(12):
        cand = model.sample_word(rng, maxlen=rng.randint(2, 7))
        if 2 <= len(cand) <= 8 and len(model.arrangements(cand, limit=3)) == 1:
            word = cand
            break
    yield {'op': 'NEW', 'a': actor, 'doc': doc, 'c': kit.rootspec(elem, True)}
    if word is None:
        return
    arr = list(model.arrangements(word, limit=3)[0])
    perm = list(word)
    rng.shuffle(perm)
    kit.w.count('c12.unique_words')
    for i, x in enumerate(perm):
        yield {'op': 'ADD', 'a': actor, 'p': [doc], 'c': kit.childspec(x, opaque=True),
               'c12': {'arr': arr, 'last': i == len(perm) - 1}}
    # the collection is complete and has one valid arrangement: it must serialise in it, with and without
    # intelligent choice (required attributes are supplied first)
    root = kit.w.docs.get(doc)
    if root is not None and sorted(c.name for c in root.children) == sorted(arr):
        for a, d in spec.attributes_of_element(elem).items():
            if d['required'] and a not in root.attrs and gen._attr_usable(a):
                v, _ = spec.exemplars(d['type'])
                if v:
                    yield {'op': 'ATTR_SET', 'a': actor, 'p': [doc], 'name': spec.py_attr_name(a), 'value': v[0]}
        usable = all((not d['required']) or a in root.attrs for a, d in spec.attributes_of_element(elem).items())
        first_ic = rng.random() < 0.5
        for ic in ([True, False] if first_ic else [False, True]):
            yield {'op': 'TO_STRING', 'a': actor, 'p': [doc], 'ic': ic, 'c12ser': {'arr': arr, 'usable': usable}}


def _brief(cfg):
    return {k: v for k, v in cfg.items() if k != 'weights'}


# ---------------------------------------------------------------------------------- C07: additions only
def wl_C07(rng, w, cfg, index):
    cfg = dict(cfg)
    wts = dict(cfg.get('weights') or {})
    for k in ('remove', 'replace', 'replace_other', 'dot_none', 'remove_foreign', 'to_string_ic', 'check_ic', 'readd',
              'remove_stale', 'replace_raw'):
        wts[k] = 0.0
    wts['add_bad'] = 2.5
    wts['fwd'] = 1.2
    if rng.random() < 0.3:
        # the statement speaks of every successful add_child: in some runs removals precede the additions judged
        wts['remove'] = 2.0
        wts['dot_none'] = 0.6
        cfg['shape'] = rng.choice(['add_remove_cycles', 'alternate_choice', 'uniform'])
    cfg['weights'] = wts
    cfg['p_ic'] = 0.0
    cfg.setdefault('shape', rng.choice(['valid_permuted', 'valid_perturbed', 'uniform', 'fill_max', 'alternate_choice', 'uniform']))
    return wl_history(rng, w, cfg, index)


# ---------------------------------------------------------------------------------- C10: failing calls + erasure twin
def wl_C10(rng, w, cfg, index):
    cfg = dict(cfg)
    wts = dict(cfg.get('weights') or {})
    wts.update({'add_bad': 3.0, 'add_foreign': 0.8, 'attr_bad': 0.8, 'value_bad': 0.6, 'remove_foreign': 0.6, 'fwd': 1.0,
                'remove_stale': 0.8, 'replace': 1.5, 'add_to_leaf': 0.5, 'replace_raw': 0.8, 'add_attached': 1.0, 'deep': 1.0, 'remove_elsewhere': 0.8,
                'to_string': 1.5, 'check': 0.6, 'to_string_ic': 0.0, 'check_ic': 0.0})
    cfg['weights'] = wts
    cfg['p_ic'] = 0.0
    kit = Kit(rng, w, cfg)
    elem = gen.pick_elements(rng, 1, index)[0]
    prog = with_obs_after_failures(kit, gen.prog_history(kit, 0, 'd0', elem, cfg), 'd0')
    return prog, {'elements': [elem], 'cfg': _brief(cfg)}


def accept_symbols(kit, node, k=5):
    m = spec.model_for_element(node.name)
    if m is None:
        return []
    present = sorted({c.name for c in node.children})
    rest = [a for a in m.alpha if a not in present]
    kit.rng.shuffle(rest)
    return (present + rest)[:k]


def with_obs_after_failures(kit, prog, doc, every_fail_p=0.7):
    """Wrap a program: after a failing call (decided by looking at the event just produced) observe the
    focus document in nested forks; observe at the end as well."""
    w = kit.w
    rng = kit.rng
    for op in prog:
        yield op
        ev = w.events[-1] if w.events else None
        if ev and ev['r'] == 'exc' and op['op'] != 'OBS' and 'p' in op and rng.random() < every_fail_p:
            node = w.node(op['p'])
            if node is not None:
                yield {'op': 'OBS', 'p': op['p'], 'accept': accept_symbols(kit, node), 'deep': False}
    root = w.docs.get(doc)
    if root is not None:
        yield {'op': 'OBS', 'p': [doc], 'accept': accept_symbols(kit, root), 'deep': True}


# ---------------------------------------------------------------------------------- C11: removals
def wl_C11(rng, w, cfg, index):
    cfg = dict(cfg)
    wts = dict(cfg.get('weights') or {})
    wts.update({'remove': 5.0, 'dot_none': 1.5, 'add': 6.0})
    cfg['weights'] = wts
    cfg['shape'] = rng.choice(['add_remove_cycles', 'valid_inorder', 'valid_permuted', 'uniform', 'alternate_choice', 'fill_max'])
    return wl_history(rng, w, cfg, index)


# ---------------------------------------------------------------------------------- C13: isolation
CANARY = [
    {'op': 'NEW', 'a': 9, 'doc': 'canary0', 'c': {'name': 'note', 'value': None, 'attrs': {}, 'xsd_check': True}},
    {'op': 'ADD', 'a': 9, 'p': ['canary0'], 'c': {'name': 'pitch', 'value': None, 'attrs': {}, 'xsd_check': True,
                                                   'kids': [{'name': 'step', 'value': 'G', 'attrs': {}, 'xsd_check': True},
                                                            {'name': 'octave', 'value': 4, 'attrs': {}, 'xsd_check': True}]}},
    {'op': 'ADD', 'a': 9, 'p': ['canary0'], 'c': {'name': 'duration', 'value': 2, 'attrs': {}, 'xsd_check': True}},
    {'op': 'ATTR_SET', 'a': 9, 'p': ['canary0'], 'name': 'default_x', 'value': 10},
    {'op': 'TO_STRING', 'a': 9, 'p': ['canary0'], 'ic': False},
    {'op': 'ADD', 'a': 9, 'p': ['canary0'], 'c': {'name': 'rest', 'value': None, 'attrs': {}, 'xsd_check': True}},
    {'op': 'OBS', 'p': ['canary0'], 'accept': ['grace', 'tie', 'voice', 'rest', 'chord'], 'deep': True},
]


def wl_C13(rng, w, cfg, index):
    cfg = dict(cfg)
    cfg['p_ic'] = rng.choice([0.0, 0.3])
    wts13 = dict(cfg.get('weights') or {})
    wts13.update({'remove_elsewhere': 0.6, 'xsd_toggle': 0.4})
    cfg['weights'] = wts13
    cfg['cross_doc_faults'] = True
    if rng.random() < 0.3:
        cfg['root_checked'] = False     # documents created unchecked, possibly switched on later
    kit = Kit(rng, w, cfg)
    nact = rng.choice([2, 2, 3, 4])
    elems = gen.pick_elements(rng, nact, index)
    if rng.random() < 0.5:
        elems = [elems[0]] * nact          # same-class instances alive together
    elif rng.random() < 0.5:
        elems[1] = elems[0]
    progs = []
    for a in range(nact):
        c = dict(cfg)
        c['nsteps'] = rng.randint(2, 8)
        progs.append(gen.prog_history(kit, a, 'd%d' % a, elems[a], c))
    if rng.random() < 0.4:
        progs.append(prog_copier(kit, nact, 'd0', 'd%d' % nact, cfg))
    for j in range(rng.choice([0, 1, 2, 3, 4])):
        progs.append(prog_attrs(kit, 5 + j, 'x%d' % j, cfg))
    if rng.random() < 0.5:
        progs.append(prog_values(kit, 4, cfg))
    if rng.random() < 0.4:
        progs.append(prog_related(kit, 3, cfg))
    if rng.random() < 0.35:
        progs.append(prog_related_complex(kit, 2, cfg))

    def program():
        if rng.random() < 0.5:
            # proc.warm(prefix): an unrelated program first in the same process
            pre = gen.prog_history(kit, 8, 'warm', rng.choice(spec.ELEMENT_CONTENT_ELEMENTS), dict(cfg, nsteps=3))
            w.count('fault.proc.warm')
            yield from pre
        sched = gen.interleave(rng, progs)
        order = []
        for op in sched:
            order.append(op.get('a'))
            yield op
        w.interleaving = ''.join(str(x) for x in order)
        for d in sorted(w.docs):
            root = w.docs[d]
            if d != 'warm':
                yield {'op': 'OBS', 'p': [d], 'accept': accept_symbols(kit, root, 4), 'deep': True}
        for op in CANARY:
            yield dict(op)
        for op in probe_ops(rng):
            yield op
    return program(), {'elements': elems, 'actors': nact}


def prog_copier(kit, actor, src, dst, cfg):
    """An actor that deep-copies another actor's document at some point and then mutates the copy."""
    rng = kit.rng
    w = kit.w
    for _ in range(rng.randint(1, 6)):
        yield {'op': 'READ', 'a': actor, 'p': [src], 'which': 'children_unordered'}
    if src not in w.docs:
        return
    yield {'op': 'DEEPCOPY', 'a': actor, 'p': [src], 'doc': dst}
    root = w.docs.get(dst)
    if root is None:
        return
    m = spec.model_for_element(root.name)
    sub = gen.sub_alphabet(rng, m) if m else []
    wts = dict(add=5, remove=2, replace=1, to_string=1, attr=1, dot_value=0.5, dot_none=0.5, complete=0.5, check=0.3)
    for _ in range(rng.randint(2, 7)):
        yield from gen._one_random(kit, actor, dst, root, sub, wts, cfg)


# ---------------------------------------------------------------------------------- C14: deep copies
def wl_C14(rng, w, cfg, index):
    cfg = dict(cfg)
    cfg['p_attrs'] = rng.choice([0.3, 0.6])
    cfg['p_ic'] = 0.0
    wts = dict(cfg.get('weights') or {})
    wts.update({'attr': 2.0, 'dot_value': 1.0, 'deep': 1.5, 'to_string_ic': 0.0, 'check_ic': 0.0, 'remove': 3.0, 'dot_none': 1.0,
                'attr_xml': 1.5, 'xsd_toggle': 0.3, 'attr_bad': 0.8, 'value_bad': 0.4, 'padded': 1.0})
    cfg['weights'] = wts
    cfg['p_final_serialise'] = 0.0
    kit = Kit(rng, w, cfg)
    elem = gen.pick_elements(rng, 1, index)[0]
    checked = rng.random() < 0.7
    if not checked:
        wts.update({'deep': 4.0, 'remove': 4.0})

    def program():
        c = dict(cfg, nsteps=rng.randint(2, 9), root_checked=checked)
        yield from gen.prog_history(kit, 0, 'd0', elem, c)
        root = w.docs.get('d0')
        if root is None:
            return
        if rng.random() < 0.6:
            yield from gen.complete(kit, 0, ['d0'], root)
        # copy the whole document or a subtree
        src = ['d0']
        subs = [n for n in root.walk() if n is not root and n.children]
        if subs and rng.random() < 0.25:
            src = w.path_of(rng.choice(subs))
        pool = w.detached_of('d0')
        det = [k for k, n in enumerate(pool) if n.parent is None]
        with_kids = [k for k in det if pool[k].children]
        if with_kids:
            det = with_kids
        if det and rng.random() < (0.9 if with_kids else 0.4):
            # a subtree that was removed / replaced out earlier: a detached element is a document of its own
            yield {'op': 'DEEPCOPY', 'a': 1, 'p': ['d0'], 'reuse': rng.choice(det), 'reuse_doc': 'd0', 'doc': 'd2'}
        yield {'op': 'DEEPCOPY', 'a': 1, 'p': src, 'doc': 'd1'}
        cp = w.docs.get('d1')
        if cp is None:
            return
        # two owners keep mutating, interleaved
        m0 = spec.model_for_element(root.name)
        m1 = spec.model_for_element(cp.name)
        wts2 = dict(add=4, remove=2, replace=1, attr=2, dot_value=1, dot_none=0.5, to_string=1, value_bad=0.2, add_bad=0.5)

        def owner(actor, doc, node, m):
            sub = gen.sub_alphabet(rng, m) if m else []
            for _ in range(rng.randint(1, 5)):
                yield from gen._one_random(kit, actor, doc, node, sub, wts2, cfg)
        sched = gen.interleave(rng, [owner(0, 'd0', root, m0), owner(1, 'd1', cp, m1)])
        order = []
        for op in sched:
            order.append(op.get('a'))
            yield op
        w.interleaving = ''.join(str(x) for x in order)
        yield {'op': 'OBS', 'p': ['d0'], 'accept': accept_symbols(kit, root, 3), 'deep': True}
        yield {'op': 'OBS', 'p': ['d1'], 'accept': accept_symbols(kit, cp, 3), 'deep': True}
    return program(), {'elements': [elem], 'root_checked': checked}


# ---------------------------------------------------------------------------------- C16: reader vs mutator on one tree
_CHARS = ['<', '>', '&', '"', "'", ']]>', '\t', '\n', '  ', ' ', '\U0001F3B5', 'é', ' ', '<!--', '&amp;', '<a b="c">',
          'é', '中', ' x', 'x ', '&#10;', '%', '\\', '{}', '\x7f', '\u0085', '�', '퟿', '']


def tricky_string(rng):
    n = rng.randint(1, 5)
    parts = []
    for _ in range(n):
        if rng.random() < 0.6:
            parts.append(rng.choice(_CHARS))
        else:
            parts.append(''.join(rng.choice('abcXYZ 019.-_') for _ in range(rng.randint(1, 5))))
    return ''.join(parts)


def string_positions():
    """Elements / attributes whose simple type admits arbitrary strings (xs:string / xs:token without
    enumeration or pattern)."""
    global _STRPOS
    try:
        return _STRPOS
    except NameError:
        pass
    els = []
    for n in spec.ALL_ELEMENTS:
        t = spec.ELEM_TYPE[n]
        if spec.type_kind(t) == 'simple':
            sc = spec.simple_content_type(t)
            if sc and spec.simple_info(sc)['kind'] in ('string', 'token'):
                els.append(n)
    _STRPOS = els
    return els


def wl_C16(rng, w, cfg, index):
    cfg = dict(cfg)
    ic_reads = rng.random() < 0.4
    cfg['p_ic'] = 0.3 if rng.random() < 0.4 else 0.0
    wts = dict(cfg.get('weights') or {})
    wts.update({'to_string': 0.3, 'to_string_ic': 0.0, 'check': 0.0, 'check_ic': 0.0, 'read': 0.0, 'deep': 1.0, 'add_under_unchecked': 1.0})
    cfg['weights'] = wts
    cfg['p_final_serialise'] = 1.0
    if ic_reads:
        cfg['shape'] = rng.choice(['valid_permuted', 'valid_perturbed', 'valid_permuted', 'uniform', 'alternate_choice'])
    kit = Kit(rng, w, cfg)
    strpos = string_positions()
    # prefer parents that can hold a string-valued child
    cands = [e for e in spec.ELEMENT_CONTENT_ELEMENTS if any(s in spec.model_for_element(e).alpha for s in strpos)]
    elem = cands[index % len(cands)] if rng.random() < 0.7 else gen.pick_elements(rng, 1, index)[0]
    amb_first = []
    if ic_reads and rng.random() < 0.5 and spec.AMBIGUOUS_ELEMENTS:
        # a type in which some child name has several slots: the only states where intelligent choice differs
        elem = rng.choice(spec.AMBIGUOUS_ELEMENTS)
        amb_first = rng.sample(spec.ambiguous_names(elem), min(len(spec.ambiguous_names(elem)), rng.randint(1, 2)))
    model = spec.model_for_element(elem)

    def mutator():
        if amb_first:
            yield {'op': 'NEW', 'a': 0, 'doc': 'd0', 'c': kit.rootspec(elem, True)}
            for x in amb_first:
                yield {'op': 'ADD', 'a': 0, 'p': ['d0'], 'c': kit.childspec(x, opaque=True)}
            root = w.docs.get('d0')
            if root is None:
                return
            sub = gen.sub_alphabet(rng, model)
            wts2 = dict(add=4, remove=1.5, replace=0.5, dot_none=0.5, complete=0.6, attr=0.3)
            for _ in range(rng.randint(0, 5)):
                yield from gen._one_random(kit, 0, 'd0', root, sub, wts2, cfg)
            yield {'op': 'TO_STRING', 'a': 0, 'p': ['d0'], 'ic': rng.random() < 0.5}
            return
        base = gen.prog_history(kit, 0, 'd0', elem, dict(cfg, nsteps=rng.randint(2, 8)))
        for op in base:
            # sprinkle tricky strings into string-typed children and token/string attributes
            if op['op'] == 'ADD' and op['c']['name'] in strpos and rng.random() < 0.6:
                op = dict(op)
                op['c'] = dict(op['c'], value=tricky_string(rng))
            yield op
            root = w.docs.get('d0')
            if root is not None and rng.random() < 0.25:
                opts = [s for s in model.alpha if s in strpos]
                comp = kit.compatible(root, opts)
                if comp:
                    yield {'op': 'ADD', 'a': 0, 'p': ['d0'], 'c': dict(kit.childspec(rng.choice(comp), opaque=True),
                                                                       value=tricky_string(rng))}
            if root is not None and rng.random() < 0.15:
                table = [(a, d) for a, d in spec.attributes_of_element(root.name).items()
                         if spec.simple_info(d['type'])['kind'] in ('string', 'token') and gen._attr_usable(a)]
                if table:
                    reqd = [x for x in table if x[1]['required']]
                    a, d = rng.choice(reqd) if (reqd and rng.random() < 0.5) else rng.choice(table)
                    val = '' if rng.random() < 0.2 else tricky_string(rng)
                    yield {'op': 'ATTR_SET', 'a': 0, 'p': ['d0'], 'name': spec.py_attr_name(a), 'value': val}

    def reader():
        for _ in range(rng.randint(2, 10)):
            root = w.docs.get('d0')
            if root is None:
                yield {'op': 'FAULT', 'kind': 'fs.clear', 'reader': True}
                continue
            nodes = [n for n in root.walk()]
            node = rng.choice(nodes) if rng.random() < 0.3 else root
            path = w.path_of(node) or ['d0']
            r = rng.random()
            if ic_reads and r < 0.12:
                # the same tree serialised plainly and then with intelligent choice (or the other way round): the
                # second call must return what it returns without the first
                first = rng.random() < 0.7
                yield {'op': 'TO_STRING', 'a': 1, 'p': path, 'ic': not first, 'reader': True, 'fault': 'obs.interpose'}
                yield {'op': 'TO_STRING', 'a': 1, 'p': path, 'ic': first, 'reader': True, 'fault': 'obs.interpose'}
            elif r < 0.45:
                yield {'op': 'TO_STRING', 'a': 1, 'p': path, 'ic': ic_reads and rng.random() < 0.5, 'reader': True,
                       'twice': rng.random() < 0.5, 'subtree': rng.randrange(4) if rng.random() < 0.4 else None,
                       'fault': 'obs.interpose'}
            elif r < 0.6:
                yield {'op': 'CHECK', 'a': 1, 'p': path, 'ic': ic_reads and rng.random() < 0.5, 'reader': True, 'fault': 'obs.interpose'}
            elif r < 0.8:
                which = rng.choice(['children_ordered', 'children_unordered', 'find_child', 'find_children',
                                    'possible_children_names', 'get_parent', 'et_xml_element', 'attributes'])
                op = {'op': 'READ', 'a': 1, 'p': path, 'which': which, 'reader': True, 'fault': 'obs.interpose'}
                if which.startswith('find'):
                    op['arg'] = rng.choice(model.alpha)
                yield op
            elif r < 0.9:
                yield {'op': 'DOT_GET', 'a': 1, 'p': path, 'name': rng.choice(model.alpha), 'reader': True, 'fault': 'obs.interpose'}
            else:
                yield {'op': 'ATTR_GET', 'a': 1, 'p': path, 'name': rng.choice(['id', 'default_x', 'color', 'type', 'number']),
                       'reader': True, 'fault': 'obs.interpose'}

    def program():
        order = []
        for op in gen.interleave(rng, [mutator(), reader()], weights=[1.0, rng.choice([0.5, 1.0, 2.0])]):
            order.append(op.get('a', 1))
            if op['op'] == 'FAULT':
                continue
            yield op
        w.interleaving = ''.join(str(x) for x in order)
        root = w.docs.get('d0')
        if root is not None:
            yield {'op': 'OBS', 'p': ['d0'], 'accept': accept_symbols(kit, root, 4), 'deep': True}
    return program(), {'elements': [elem], 'ic_reads': ic_reads}


# ---------------------------------------------------------------------------------- C04: attribute interface
_RESERVED = ['name', 'level', 'content', 'attributes', 'type_', 'value_', 'compact_repr', 'is_leaf']


def wl_C04(rng, w, cfg, index):
    kit = Kit(rng, w, cfg)
    # every element class in turn (441), so that the thorough tier offers every declared pair
    elem = spec.ALL_ELEMENTS[index % len(spec.ALL_ELEMENTS)]
    table = list(spec.attributes_of_element(elem).items())

    def value_for(a, d, want_valid=True):
        g, b = spec.exemplars(d['type'])
        if d.get('fixed') is not None:
            g = [d['fixed']]
        pool = g if want_valid else b
        return rng.choice(pool) if pool else None

    def program():
        rel = []
        for a1, d1 in table:
            for dd, bb in spec.derived_type_pairs():
                if d1['type'] == dd and spec.positions_of_type(bb):
                    rel.append((a1, d1, bb))
        if rel and rng.random() < 0.8:
            # the attribute's type restricts another named type: use the *base* type first (a value the derived type
            # must reject), then offer that value here
            a1, d1, bb = rng.choice(rel)
            gb, _x = spec.exemplars(bb)
            gd, _y = spec.exemplars(d1['type'])
            cand = [v for v in gb if not any(v == x and type(v) is type(x) for x in gd)]
            pos = rng.choice(spec.positions_of_type(bb))
            if cand:
                v = rng.choice(cand)
                if pos[0] == 'value':
                    yield {'op': 'NEW', 'a': 1, 'doc': 'warm', 'c': {'name': pos[1], 'value': v, 'attrs': {}, 'xsd_check': True}}
                else:
                    yield {'op': 'NEW', 'a': 1, 'doc': 'warm', 'c': {'name': pos[1], 'value': gen.default_value(pos[1]), 'attrs': {}, 'xsd_check': True}}
                    if 'warm' in w.docs:
                        yield {'op': 'ATTR_SET', 'a': 1, 'p': ['warm'], 'name': spec.py_attr_name(pos[2]), 'value': v}
                yield {'op': 'NEW', 'a': 0, 'doc': 'dr', 'c': {'name': elem, 'value': gen.default_value(elem), 'attrs': {}, 'xsd_check': True}}
                if 'dr' in w.docs:
                    yield {'op': 'ATTR_SET', 'a': 0, 'p': ['dr'], 'name': spec.py_attr_name(a1), 'value': v, 'fault': 'rej.bad_attr_value'}
        elif table and rng.random() < 0.5:
            # another class first, in the same process, given an attribute of the same *name* (tables, enumerations
            # and validation caches are per type: what another type accepted must not leak)
            a0 = rng.choice(table)[0]
            others = [n for n in spec.ALL_ELEMENTS if n != elem and a0 in spec.attributes_of_element(n)
                      and spec.attributes_of_element(n)[a0]['type'] != dict(table)[a0]['type']]
            if others:
                o = rng.choice(others)
                d0 = spec.attributes_of_element(o)[a0]
                g0, _b0 = spec.exemplars(d0['type'])
                yield {'op': 'NEW', 'a': 1, 'doc': 'warm', 'c': {'name': o, 'value': gen.default_value(o), 'attrs': {}, 'xsd_check': True}}
                if 'warm' in w.docs:
                    own_lits = set(map(str, spec.exemplars(dict(table)[a0]['type'])[0]))
                    foreign = [x for x in g0 if str(x) not in own_lits] or g0
                    for v0 in foreign[:3]:
                        yield {'op': 'ATTR_SET', 'a': 1, 'p': ['warm'], 'name': spec.py_attr_name(a0), 'value': v0}
        cs = {'name': elem, 'value': gen.default_value(elem), 'attrs': {}, 'xsd_check': True}
        via_ctor = rng.random() < 0.4 and table
        if via_ctor:
            a, d = rng.choice(table)
            r = rng.random()
            if r < 0.7:
                v = value_for(a, d, True)
                if v is not None:
                    cs['attrs'] = {spec.py_attr_name(a): v}
            elif r < 0.85:
                v = value_for(a, d, False)
                if v is not None:
                    cs['attrs'] = {spec.py_attr_name(a): v}
            else:
                cs['attrs'] = {rng.choice(['bogus', 'colour', 'no_such']): 'x'}
        yield {'op': 'NEW', 'a': 0, 'doc': 'd0', 'c': cs, 'c04': True}
        if 'd0' not in w.docs:
            cs2 = dict(cs, attrs={})
            yield {'op': 'NEW', 'a': 0, 'doc': 'd0', 'c': cs2}
            if 'd0' not in w.docs:
                return
        root = w.docs['d0']
        order = list(table)
        rng.shuffle(order)
        # in the thorough tier offer every declared attribute of this element once (valid value)
        k_all = len(order) if cfg.get('all_attrs') else min(len(order), rng.randint(1, 5))
        for a, d in order[:k_all]:
            v = value_for(a, d, True)
            if v is not None:
                yield {'op': 'ATTR_SET', 'a': 0, 'p': ['d0'], 'name': spec.py_attr_name(a), 'value': v}
            r = rng.random()
            if r < 0.2:
                v = value_for(a, d, False)
                if v is not None:
                    yield {'op': 'ATTR_SET', 'a': 0, 'p': ['d0'], 'name': spec.py_attr_name(a), 'value': v, 'fault': 'rej.bad_attr_value'}
            elif r < 0.35:
                yield {'op': 'ATTR_SET', 'a': 0, 'p': ['d0'], 'name': spec.py_attr_name(a), 'value': None}
            elif r < 0.5:
                v = value_for(a, d, True)
                if v is not None:
                    yield {'op': 'ATTR_SET', 'a': 0, 'p': ['d0'], 'name': spec.py_attr_name(a), 'value': v}   # overwrite
            elif r < 0.6:
                yield {'op': 'ATTR_GET', 'a': 0, 'p': ['d0'], 'name': spec.py_attr_name(a)}
            if rng.random() < 0.15:
                yield {'op': 'TO_STRING', 'a': 0, 'p': ['d0'], 'ic': False}
        # undeclared names: another type's attribute, a misspelling, Python-side reserved names
        for _ in range(rng.randint(0, 2)):
            other = spec.attributes_of_element(rng.choice(spec.ALL_ELEMENTS))
            cand = [x for x in other if x not in dict(table) and ':' not in x]
            name = rng.choice(cand) if (cand and rng.random() < 0.6) else rng.choice(['colour', 'defaultx', 'bogus', 'level', 'content'])
            if gen_schema_name(elem, name.replace('-', '_')) is None:
                yield {'op': 'ATTR_SET', 'a': 0, 'p': ['d0'], 'name': name.replace('-', '_'), 'value': 'x', 'fault': 'rej.bad_attr_name'}
        # third surface: the parser (a one-element document carrying one attribute)
        if table and rng.random() < cfg.get('p_parser_surface', 0.35):
            from . import docgen
            a, d = rng.choice(table)
            r = rng.random()
            declared = True
            if r < 0.7:
                v = value_for(a, d, True)
            elif r < 0.85:
                v = value_for(a, d, False)
            else:
                declared = False
                a, v = rng.choice(['colour', 'bogus', 'defaultx']), 'x'
            if v is not None:
                cs1 = {'name': elem, 'value': gen.default_value(elem), 'attrs': {a: v}, 'kids': []}
                yield {'op': 'FSPUT', 'path': 'one.xml', 'hex': docgen.to_xml(cs1).encode('utf-8').hex()}
                yield {'op': 'PARSE', 'a': 0, 'path': 'one.xml', 'doc': 'dp', 'c04': {'elem': elem, 'attr': a, 'value': v, 'declared': declared}}
        # complete children so that serialisation can succeed, then serialise
        m = spec.model_for_element(elem)
        if m is not None:
            for x in (m.missing([]) or []):
                yield {'op': 'ADD', 'a': 0, 'p': ['d0'], 'c': gen.default_childspec(x)}
        if rng.random() < 0.5:
            for a, d in table:
                if d['required'] and a not in root.attrs:
                    v = value_for(a, d, True)
                    if v is not None:
                        yield {'op': 'ATTR_SET', 'a': 0, 'p': ['d0'], 'name': spec.py_attr_name(a), 'value': v}
        yield {'op': 'TO_STRING', 'a': 0, 'p': ['d0'], 'ic': False}
    return program(), {'elements': [elem]}


def gen_schema_name(elem, py):
    from .world import schema_attr_name
    return schema_attr_name(elem, py)


# ---------------------------------------------------------------------------------- C15: two surfaces
def wl_C15(rng, w, cfg, index):
    kit = Kit(rng, w, cfg)
    elem = gen.pick_elements(rng, 1, index)[0]
    model = spec.model_for_element(elem)
    sub = gen.sub_alphabet(rng, model)
    # bias to translation hazards
    hazards = [a for a in model.alpha if a in ('name', 'level', 'content', 'type', 'value') or '-' in a]
    if hazards and rng.random() < 0.5:
        sub = sorted(set(sub) | set(rng.sample(hazards, min(2, len(hazards)))))

    def program():
        table = [(a, d) for a, d in spec.attributes_of_element(elem).items()]
        rng.shuffle(table)
        attrs = {}
        for a, d in table[:rng.randint(0, 3)]:
            g, b = spec.exemplars(d['type'])
            if d.get('fixed') is not None:
                g = [d['fixed']]
            if g:
                attrs[spec.py_attr_name(a)] = rng.choice(b) if (b and rng.random() < 0.1) else rng.choice(g)
                if spec.simple_info(d['type'])['kind'] in ('token', 'string', 'pattern') and rng.random() < 0.3:
                    # free text with irregular white space: whatever the verdict, both surfaces must agree and a
                    # read must return what was assigned
                    attrs[spec.py_attr_name(a)] = rng.choice([' a  b ', 'x\ty', 'Times  New Roman', ' lead', 'trail ', 'a\nb'])
        base = {'name': elem, 'value': gen.default_value(elem), 'xsd_check': rng.random() >= 0.15}
        # attributes: constructor keywords on A; dot assignment on B
        yield {'op': 'PAIR', 'step': 'create+attributes', 'first': 'explicit',
               'explicit': [{'op': 'NEW', 'a': 0, 'doc': 'dA', 'c': dict(base, attrs=dict(attrs))}],
               'shortcut': [{'op': 'NEW', 'a': 1, 'doc': 'dB', 'c': dict(base, attrs={})}] +
                           [{'op': 'ATTR_SET', 'a': 1, 'p': ['dB'], 'name': k, 'value': v} for k, v in attrs.items()]}
        if 'dA' not in w.docs or 'dB' not in w.docs:
            return
        A, B = w.docs['dA'], w.docs['dB']
        if rng.random() < 0.15:
            # same-named children whose document order differs from their insertion order: add, add, remove the first,
            # add another; then assign through the shortcut and read back through it
            multi = [x for x in sub if spec.element_value_exemplars(x)[0] and model.extendable([x, x, x])]
            if multi:
                x = rng.choice(multi)
                gx = spec.element_value_exemplars(x)[0]
                for j in range(2):
                    cs = {'name': x, 'value': gx[j % len(gx)], 'attrs': {}, 'xsd_check': True}
                    yield {'op': 'PAIR', 'step': 'add-another:' + x, 'first': 'explicit',
                           'explicit': [{'op': 'ADD', 'a': 0, 'p': ['dA'], 'c': cs}], 'shortcut': [{'op': 'ADD', 'a': 1, 'p': ['dB'], 'c': cs}]}
                ia = [i for i, c in enumerate(A.children) if c.name == x]
                ib = [i for i, c in enumerate(B.children) if c.name == x]
                if len(ia) == 2 and len(ib) == 2:
                    yield {'op': 'PAIR', 'step': 'remove-first:' + x, 'first': 'explicit',
                           'explicit': [{'op': 'REMOVE', 'a': 0, 'p': ['dA'], 'i': ia[0]}], 'shortcut': [{'op': 'REMOVE', 'a': 1, 'p': ['dB'], 'i': ib[0]}]}
                    cs = {'name': x, 'value': gx[-1], 'attrs': {}, 'xsd_check': True}
                    yield {'op': 'PAIR', 'step': 'add-another:' + x, 'first': 'explicit',
                           'explicit': [{'op': 'ADD', 'a': 0, 'p': ['dA'], 'c': cs}], 'shortcut': [{'op': 'ADD', 'a': 1, 'p': ['dB'], 'c': cs}]}
                    if sum(1 for c in B.children if c.name == x) > 1 and rng.random() < 0.5:
                        cs = {'name': x, 'value': gx[0], 'attrs': {}, 'xsd_check': True}
                        yield {'op': 'PAIR', 'step': 'set-child-element-dup:' + x, 'first': 'explicit',
                               'explicit': [{'op': 'DOT_SET', 'a': 0, 'p': ['dA'], 'name': x, 'v': {'kind': 'element', 'c': cs}}],
                               'shortcut': [{'op': 'DOT_SET', 'a': 1, 'p': ['dB'], 'name': x, 'v': {'kind': 'element', 'c': cs}}]}
                        yield {'op': 'TO_STRING', 'a': 1, 'p': ['dB'], 'ic': False, 'c15order': x}
                    if sum(1 for c in B.children if c.name == x) > 1:
                        v2 = gx[0]
                        yield {'op': 'DOT_SET', 'a': 1, 'p': ['dB'], 'name': x, 'v': {'kind': 'value', 'value': v2}}
                        if w.events[-1]['r'] == 'ok':
                            yield {'op': 'DOT_GET', 'a': 1, 'p': ['dB'], 'name': x, 'ryw': v2}
                        yield {'op': 'DOT_SET', 'a': 0, 'p': ['dA'], 'name': x, 'v': {'kind': 'value', 'value': v2}}
        for k in list(attrs)[:2]:
            yield {'op': 'ATTR_GET', 'a': 1, 'p': [rng.choice(['dA', 'dB'])], 'name': k}
        for _ in range(rng.randint(2, 10)):
            name = rng.choice(sub)
            exA = [i for i, c in enumerate(A.children) if c.name == name]
            exB = [i for i, c in enumerate(B.children) if c.name == name]
            if len(exA) > 1 or len(exB) > 1:
                # several same-named children: which one the shortcut addresses is its own business, but a value
                # assigned through it must be the value read back through it
                g2, _b2 = spec.element_value_exemplars(name)
                if g2 and len(exB) > 1:
                    v2 = rng.choice(g2)
                    yield {'op': 'DOT_SET', 'a': 1, 'p': ['dB'], 'name': name, 'v': {'kind': 'value', 'value': v2}}
                    if w.events[-1]['r'] == 'ok':
                        yield {'op': 'DOT_GET', 'a': 1, 'p': ['dB'], 'name': name, 'ryw': v2}
                    # keep the twin document in step through the same surface
                    yield {'op': 'DOT_SET', 'a': 0, 'p': ['dA'], 'name': name, 'v': {'kind': 'value', 'value': v2}}
                continue
            r = rng.random()
            g, b = spec.element_value_exemplars(name)
            if r < 0.35 and g:
                val = rng.choice(b) if (b and rng.random() < 0.15) else rng.choice(g)
                if exA and rng.random() < 0.35:
                    # the same number again in another Python type (1 -> 1.0, 2.0 -> 2): equal but not the same
                    cur = A.children[exA[0]].value
                    if isinstance(cur, bool):
                        pass
                    elif isinstance(cur, int):
                        val = float(cur)
                    elif isinstance(cur, float) and cur == int(cur):
                        val = int(cur)
                step = 'set-child-value'
                if exA:
                    ea = {'op': 'VALUE_SET', 'a': 0, 'p': ['dA', exA[0]], 'value': val}
                else:
                    ea = {'op': 'ADD', 'a': 0, 'p': ['dA'], 'c': {'name': name, 'value': val, 'attrs': {}, 'xsd_check': True}}
                eb = {'op': 'DOT_SET', 'a': 1, 'p': ['dB'], 'name': name, 'v': {'kind': 'value', 'value': val}}
            elif r < 0.65:
                cs = kit.childspec(name)
                step = 'set-child-element'
                if exA:
                    ea = {'op': 'REPLACE', 'a': 0, 'p': ['dA'], 'i': exA[0], 'c': cs}
                else:
                    ea = {'op': 'ADD', 'a': 0, 'p': ['dA'], 'c': cs}
                eb = {'op': 'DOT_SET', 'a': 1, 'p': ['dB'], 'name': name, 'v': {'kind': 'element', 'c': cs}}
            elif r < 0.72 and model.extendable([c.name for c in A.children] + [name]):
                # a further child of the same name (explicit add on both documents), so that duplicates exist
                cs = kit.childspec(name)
                yield {'op': 'PAIR', 'step': 'add-another:' + name, 'first': 'explicit',
                       'explicit': [{'op': 'ADD', 'a': 0, 'p': ['dA'], 'c': cs}], 'shortcut': [{'op': 'ADD', 'a': 1, 'p': ['dB'], 'c': cs}]}
                continue
            elif r < 0.85:
                step = 'remove-child'
                if exA:
                    ea = {'op': 'REMOVE', 'a': 0, 'p': ['dA'], 'i': exA[0]}
                else:
                    ea = {'op': 'READ', 'a': 0, 'p': ['dA'], 'which': 'children_unordered'}   # explicit no-op
                eb = {'op': 'DOT_SET', 'a': 1, 'p': ['dB'], 'name': name, 'v': {'kind': 'none'}}
            else:
                # reads, on either document
                d = rng.choice(['dA', 'dB'])
                yield {'op': 'DOT_GET', 'a': 1, 'p': [d], 'name': name}
                if table and rng.random() < 0.5:
                    yield {'op': 'ATTR_GET', 'a': 1, 'p': [d], 'name': spec.py_attr_name(rng.choice(table)[0])}
                continue
            if rng.random() < 0.3:
                # mixed rendering: this step is performed through the explicit API on document B as well
                eb = dict(ea, p=['dB'] + ea['p'][1:], a=1)
                if eb['op'] in ('VALUE_SET', 'REPLACE', 'REMOVE') and not exB:
                    eb = None
                elif eb['op'] == 'VALUE_SET':
                    eb['p'] = ['dB', exB[0]]
                elif eb['op'] in ('REPLACE', 'REMOVE'):
                    eb['i'] = exB[0]
                if eb is None:
                    continue
            yield {'op': 'PAIR', 'step': step + ':' + name, 'first': rng.choice(['explicit', 'shortcut']),
                   'explicit': [ea], 'shortcut': [eb]}
            if rng.random() < 0.35:
                yield {'op': 'DOT_GET', 'a': 1, 'p': [rng.choice(['dA', 'dB'])], 'name': name}
        if rng.random() < 0.6:
            # supply what is missing on both surfaces alike (explicit adds on A, dot assignment on B)
            m = spec.model_for_element(elem)
            miss = m.missing([c.name for c in A.children]) or []
            for x in miss[:6]:
                cs = gen.default_childspec(x)
                if any(c.name == x for c in B.children):
                    eb = {'op': 'ADD', 'a': 1, 'p': ['dB'], 'c': cs}
                else:
                    eb = {'op': 'DOT_SET', 'a': 1, 'p': ['dB'], 'name': x, 'v': {'kind': 'element', 'c': cs}}
                yield {'op': 'PAIR', 'step': 'complete:' + x, 'first': 'explicit',
                       'explicit': [{'op': 'ADD', 'a': 0, 'p': ['dA'], 'c': cs}], 'shortcut': [eb]}
        yield {'op': 'PAIR', 'step': 'serialise', 'first': 'explicit',
               'explicit': [{'op': 'TO_STRING', 'a': 0, 'p': ['dA'], 'ic': False}],
               'shortcut': [{'op': 'TO_STRING', 'a': 1, 'p': ['dB'], 'ic': False}]}
    return program(), {'elements': [elem], 'sub': sub}


def w_last_macro_ops(w):
    return []


# ---------------------------------------------------------------------------------- C18: unchecked nodes
def wl_C18(rng, w, cfg, index):
    cfg = dict(cfg)
    cfg['p_ic'] = 0.0
    kit = Kit(rng, w, cfg)
    elem = gen.pick_elements(rng, 1, index)[0]
    if index % 9 == 4:
        elem = 'score-partwise'     # the one class with write()
    model = spec.model_for_element(elem)

    def program():
        mode = rng.choice(['free', 'twin', 'nested', 'transplant'])
        if elem == 'score-partwise' and mode in ('twin', 'transplant'):
            mode = 'nested'
        if mode == 'transplant':
            # children that lived in a checked element (added, then replaced out / removed) move into an
            # unchecked one, where every structural operation must still succeed
            yield {'op': 'NEW', 'a': 0, 'doc': 'dC', 'c': kit.rootspec(elem, True)}
            yield {'op': 'NEW', 'a': 1, 'doc': 'dU', 'c': dict(kit.rootspec(rng.choice(spec.ELEMENT_CONTENT_ELEMENTS), False), xsd_check=False)}
            C, U = w.docs.get('dC'), w.docs.get('dU')
            if C is None or U is None:
                return
            for _ in range(rng.randint(2, 6)):
                comp = kit.compatible(C, model.alpha)
                if comp and rng.random() < 0.6:
                    yield {'op': 'ADD', 'a': 0, 'p': ['dC'], 'c': kit.childspec(rng.choice(comp), opaque=rng.random() < 0.7)}
                elif C.children:
                    i = rng.randrange(len(C.children))
                    if rng.random() < 0.6:
                        yield {'op': 'REPLACE', 'a': 0, 'p': ['dC'], 'i': i, 'c': kit.childspec(C.children[i].name, opaque=True),
                               'by': rng.choice(['ref', 'pred'])}
                    else:
                        yield {'op': 'REMOVE', 'a': 0, 'p': ['dC'], 'i': i}
            for _ in range(rng.randint(2, 7)):
                src = rng.choice(['dC', 'dC', 'dU'])
                pool = w.detached_of(src)
                det = [k for k, x in enumerate(pool) if x.parent is None]
                r = rng.random()
                if det and r < 0.45:
                    k = rng.choice(det)
                    yield {'op': 'ADD', 'a': 1, 'p': ['dU'], 'reuse': k, 'reuse_doc': src, 'c': {'name': pool[k].name}}
                elif U.children and r < 0.7:
                    yield {'op': 'REMOVE', 'a': 1, 'p': ['dU'], 'i': rng.randrange(len(U.children))}
                elif U.children and r < 0.8:
                    yield {'op': 'REPLACE', 'a': 1, 'p': ['dU'], 'i': rng.randrange(len(U.children)),
                           'c': kit.childspec(rng.choice(spec.ALL_ELEMENTS), opaque=True)}
                elif r < 0.9:
                    yield {'op': 'ADD', 'a': 1, 'p': ['dU'], 'c': kit.childspec(rng.choice(spec.ALL_ELEMENTS), opaque=True)}
                else:
                    yield {'op': 'TO_STRING', 'a': 1, 'p': ['dU'], 'ic': False}
            yield {'op': 'TO_STRING', 'a': 1, 'p': ['dU'], 'ic': False}
            return
        if mode == 'twin':
            # same children in a schema-valid order to an unchecked element and to a checked twin
            word = model.sample_word(rng, maxlen=rng.randint(1, 7))
            kids = [kit.childspec(x, opaque=True) for x in word]
            attrs = kit.rootspec(elem, True)['attrs']
            yield {'op': 'NEW', 'a': 0, 'doc': 'dU', 'c': {'name': elem, 'value': gen.default_value(elem), 'attrs': attrs, 'xsd_check': False}}
            yield {'op': 'NEW', 'a': 1, 'doc': 'dC', 'c': {'name': elem, 'value': gen.default_value(elem), 'attrs': attrs, 'xsd_check': True}}
            if 'dU' not in w.docs or 'dC' not in w.docs:
                return
            ok = True
            for k in kids:
                yield {'op': 'ADD', 'a': 0, 'p': ['dU'], 'c': k}
                yield {'op': 'ADD', 'a': 1, 'p': ['dC'], 'c': k}
                if w.events[-1]['r'] != 'ok':
                    ok = False      # checked twin rejected a valid in-order word: C02/C12 territory, skip comparison
                    break
            if not ok:
                return
            C = w.docs['dC']
            ch = w.cheap(C)
            if ch['od'] != list(range(len(C.children))):
                return              # twin did not keep the order: skip
            yield {'op': 'TO_STRING', 'a': 0, 'p': ['dU'], 'ic': False, 'c18twin': {'role': 'unchecked'}}
            if w.events[-1]['r'] != 'ok':
                return
            yield {'op': 'TO_STRING', 'a': 1, 'p': ['dC'], 'ic': False, 'c18twin': {'role': 'checked'}}
            return
        root_checked = (mode == 'nested' and rng.random() < 0.3)
        yield {'op': 'NEW', 'a': 0, 'doc': 'd0', 'c': dict(kit.rootspec(elem, root_checked), xsd_check=root_checked)}
        root = w.docs.get('d0')
        if root is None:
            return
        if root_checked:
            # checked root -> unchecked child (with a content model) -> checked grandchildren
            withmodel = [x for x in kit.compatible(root, model.alpha) if spec.model_for_element(x) is not None]
            for x in rng.sample(withmodel, min(len(withmodel), 2)):
                yield {'op': 'ADD', 'a': 0, 'p': ['d0'], 'c': {'name': x, 'value': None, 'attrs': {}, 'xsd_check': False}}
            # ... and under them checked elements that are still incomplete (their type requires children)
            needy = [e for e in spec.ELEMENT_CONTENT_ELEMENTS if spec.model_for_element(e).missing([])]
            for i, c in enumerate(root.children):
                if not c.xsd_check and rng.random() < 0.8:
                    g = rng.choice(needy)
                    attrs = {}
                    for a, d in spec.attributes_of_element(g).items():
                        if d['required'] and gen._attr_usable(a):
                            v, _ = spec.exemplars(d['type'])
                            if v:
                                attrs[spec.py_attr_name(a)] = v[0]
                    yield {'op': 'ADD', 'a': 0, 'p': ['d0', i], 'c': {'name': g, 'value': None, 'attrs': attrs, 'xsd_check': True, 'kids': []}}
        for _ in range(rng.randint(3, 12)):
            nodes = list(root.walk())
            unchecked = [n for n in nodes if not n.xsd_check and spec.type_kind(spec.ELEM_TYPE[n.name]) != 'simple']
            nested_checked = [n for n in nodes if n.xsd_check and not n.fully_checked_path() and spec.model_for_element(n.name)]
            r = rng.random()
            if mode == 'nested' and nested_checked and r < 0.5:
                n = rng.choice(nested_checked)
                p = w.path_of(n)
                m = spec.model_for_element(n.name)
                if n.children and rng.random() < 0.3:
                    i = rng.randrange(len(n.children))
                    if rng.random() < 0.5:
                        yield {'op': 'REPLACE', 'a': 0, 'p': p, 'i': i, 'c': kit.childspec(n.children[i].name, opaque=True)}
                    else:
                        yield {'op': 'REMOVE', 'a': 0, 'p': p, 'i': i}
                elif rng.random() < 0.6:
                    comp = kit.compatible(n, m.alpha)
                    if comp:
                        yield {'op': 'ADD', 'a': 0, 'p': p, 'c': kit.childspec(rng.choice(comp), opaque=True)}
                elif rng.random() < 0.7:
                    bad = kit.incompatible(n, m.alpha)
                    name = rng.choice(bad) if bad else kit.foreign_name(n)
                    yield {'op': 'ADD', 'a': 0, 'p': p, 'c': kit.childspec(name, opaque=True), 'fault': 'rej.incompatible'}
                else:
                    yield {'op': 'TO_STRING', 'a': 0, 'p': p, 'ic': False}
                continue
            if not unchecked:
                break
            n = rng.choice(unchecked)
            p = w.path_of(n)
            pool = w.detached_of('d0')
            det = [k for k, x in enumerate(pool) if x.parent is None]
            if det and rng.random() < 0.3:
                # a child that was removed / replaced out of another (possibly checked) element earlier
                k = rng.choice(det)
                yield {'op': 'ADD', 'a': 0, 'p': p, 'reuse': k, 'reuse_doc': 'd0', 'c': {'name': pool[k].name}}
                continue
            if r < 0.55:
                # any class as child, any number, any order
                name = rng.choice(spec.ALL_ELEMENTS) if rng.random() < 0.5 else rng.choice(model.alpha)
                if mode == 'nested' and rng.random() < 0.5 and spec.model_for_element(name) is None:
                    name = rng.choice(spec.ELEMENT_CONTENT_ELEMENTS)
                opaque = not (mode == 'nested' and rng.random() < 0.6)
                cs = kit.childspec(name, opaque=opaque)
                if not opaque:
                    cs['kids'] = []
                yield {'op': 'ADD', 'a': 0, 'p': p, 'c': cs}
            elif r < 0.7 and n.children:
                yield {'op': 'REMOVE', 'a': 0, 'p': p, 'i': rng.randrange(len(n.children))}
            elif r < 0.8 and n.children:
                yield {'op': 'REPLACE', 'a': 0, 'p': p, 'i': rng.randrange(len(n.children)),
                       'c': kit.childspec(rng.choice(spec.ALL_ELEMENTS), opaque=True)}
            else:
                yield {'op': 'TO_STRING', 'a': 0, 'p': p, 'ic': False}
        if root_checked:
            # make the checked root itself complete (the macro stops at unchecked elements), so that what the final
            # serialisation says depends on the checked elements *below* the unchecked ones only
            yield from gen.complete(kit, 0, ['d0'], root)
        yield {'op': 'TO_STRING', 'a': 0, 'p': ['d0'], 'ic': False}
        if root.name == 'score-partwise':
            yield {'op': 'WRITE', 'a': 0, 'doc': 'd0', 'path': 'u.xml', 'ic': False}
        if rng.random() < 0.4:
            un = [n for n in root.walk() if all(not x.xsd_check for x in n.walk())]
            if un:
                yield {'op': 'DEEPCOPY', 'a': 0, 'p': w.path_of(rng.choice(un)), 'doc': 'dcopy'}
    return program(), {'elements': [elem]}


# ---------------------------------------------------------------------------------- C17: write() under faults
def prior_states(rng):
    old = ('<?xml version="1.0" encoding="UTF-8" standalone="no"?>\n<score-partwise version="4.0">\n  <part-list>\n'
           '    <score-part id="P1">\n      <part-name>Old</part-name>\n    </score-part>\n  </part-list>\n'
           '  <part id="P1">\n    <measure number="1" />\n  </part>\n</score-partwise>\n').encode('utf-8')
    return [('absent', None), ('empty', b''), ('old-score', old), ('bytes', bytes(rng.randrange(256) for _ in range(40)))]


def wl_C17(rng, w, cfg, index):
    from . import docgen
    kit = Kit(rng, w, cfg)
    nonascii = rng.random() < 0.5
    size = rng.randint(5, cfg.get('max_size', 40))

    def program():
        tree = None
        for _ in range(6):
            tree = docgen.gen_score(rng, size=size, nonascii=nonascii)
            if tree is None:
                continue
            yield {'op': 'NEW', 'a': 0, 'doc': 'd0', 'c': tree}
            if 'd0' in w.docs:
                break
            w.count('c17.doc_rejected_by_library')
        root = w.docs.get('d0')
        if root is None:
            return
        yield {'op': 'TO_STRING', 'a': 0, 'p': ['d0'], 'ic': False}
        if w.events[-1]['r'] != 'ok':
            w.count('c17.doc_incomplete_for_library')
            return
        w.count('c17.documents')
        text_has_nonascii = any(ord(c) > 127 for c in w.text)
        priors = prior_states(rng)
        encs = ['utf-8', 'ascii', 'latin-1', 'cp1252']
        n = 0

        def case(label, ops, prior=None, enc=None):
            nonlocal n
            n += 1
            path = 'out%d.xml' % n
            pre = []
            if enc:
                pre.append({'op': 'FAULT', 'kind': 'fs.encoding', 'params': {'encoding': enc}})
            pk, pb = prior if prior else rng.choice(priors)
            if pb is not None:
                pre.append({'op': 'FAULT', 'kind': 'fs.prior', 'params': {'path': path, 'hex': pb.hex()}})
            body = []
            for o in ops:
                if o['op'] in ('WRITE', 'PARSE'):
                    o = dict(o, path=path)
                elif o['op'] == 'FAULT' and (o.get('params') or {}).get('path') == '?':
                    o = dict(o, params=dict(o['params'], path=path))
                body.append(o)
            return {'case': pre + body + [{'op': 'FSSTATE', 'path': path}], 'label': label + '/' + pk + '/' + (enc or 'utf-8')}

        W = {'op': 'WRITE', 'a': 0, 'doc': 'd0', 'path': '?', 'ic': False}
        # 1. fault-free write under every default encoding and every prior state
        for enc in encs:
            for pr in priors:
                yield case('plain', [dict(W)], pr, enc)
        # 2. break.node_k for EVERY node k and each kind of requirement, then write
        nodes = [(w.path_of(nd), nd) for nd in root.walk()]
        for path, nd in nodes:
            m = spec.model_for_element(nd.name)
            if m is not None and nd.xsd_check:
                ms = [c.name for c in nd.children]
                for i, c in enumerate(nd.children):
                    rest = ms[:i] + ms[i + 1:]
                    if not m.accepts(rest):
                        w.count('fault.break.node_k.child')
                        yield case('break-child', [{'op': 'REMOVE', 'a': 0, 'p': path, 'i': i}, dict(W)],
                                   enc=rng.choice(encs) if rng.random() < 0.3 else None)
                        break
            for a, d in spec.attributes_of_element(nd.name).items():
                if d['required'] and a in nd.attrs and nd.xsd_check:
                    w.count('fault.break.node_k.attribute')
                    yield case('break-attr', [{'op': 'ATTR_SET', 'a': 0, 'p': path, 'name': spec.py_attr_name(a), 'value': None},
                                              dict(W)], enc=rng.choice(encs) if rng.random() < 0.3 else None)
                    break
        # 2b. a node is broken, serialised on its own (refused), repaired with the very same child, then the whole
        #     score is written: the file must hold the repaired document
        broke = 0
        for path, nd in rng.sample(nodes, min(len(nodes), 6)):
            m = spec.model_for_element(nd.name)
            if m is None or not nd.xsd_check or not nd.children or path == ['d0']:
                continue
            i = rng.randrange(len(nd.children))
            yield case('break-repair', [{'op': 'REMOVE', 'a': 0, 'p': path, 'i': i},
                                        {'op': 'TO_STRING', 'a': 0, 'p': path, 'ic': False},
                                        {'op': 'ADD', 'a': 0, 'p': path, 'reuse': 0, 'reuse_doc': 'd0', 'c': {'name': nd.children[i].name}},
                                        {'op': 'TO_STRING', 'a': 0, 'p': ['d0'], 'ic': False, 'skip_if_cached': True},
                                        dict(W)][0:3] + [dict(W)], rng.choice(priors))
            broke += 1
            if broke >= 2:
                break
        # 3. asynchronous exception at the k-th library function entry during write()
        for k in sorted({1, 2, 3, 5, 8} | {rng.randint(1, 4000) for _ in range(cfg.get('async_points', 6))}):
            yield case('async@%d' % k, [{'op': 'FAULT', 'kind': 'async.exc', 'params': {'k': k}}, dict(W)])
        # 4. file-system errors at open, at each write call, at close; special destinations
        for kind, params in (('fs.open_err', {'errno': 5}), ('fs.write_err', {'nth': 1, 'errno': 28}),
                             ('fs.write_err', {'nth': 2, 'errno': 5}), ('fs.short_write', {'nth': 2, 'keep': 17}),
                             ('fs.short_write', {'nth': 1, 'keep': 9}), ('fs.close_err', {}), ('fs.enospc', {'room': 60})):
            yield case(kind, [{'op': 'FAULT', 'kind': kind, 'params': params}, dict(W)])
        nn = n + 1
        yield case('fs.readonly', [{'op': 'FAULT', 'kind': 'fs.readonly', 'params': {'path': 'out%d.xml' % nn}}, dict(W)], priors[2])
        nn = n + 1
        yield case('fs.is_dir', [{'op': 'FAULT', 'kind': 'fs.is_dir', 'params': {'path': 'out%d.xml' % nn}}, dict(W)], priors[0])
        # 4b. parsing under every default encoding must give what it gives under UTF-8
        for enc in encs[1:]:
            yield case('parse', [dict(W), {'op': 'PARSE', 'a': 0, 'path': '?', 'doc': 'p0', 'c17ref': True},
                                 {'op': 'FAULT', 'kind': 'fs.encoding', 'params': {'encoding': enc}},
                                 {'op': 'PARSE', 'a': 0, 'path': '?', 'doc': 'p1', 'c17cmp': 'p0'}], priors[0], None)
        # 4b'. a three-step history: the written file is re-stored by another tool in a non-UTF-8 encoding it declares,
        #      parsed, and the parsed score written again - the second file too is UTF-8 and holds exactly its to_string()
        #      (seeded change C17-m7: the parser remembers the source encoding and write() reuses it)
        for to in rng.sample(['iso-8859-1', 'windows-1252', 'utf-16', 'iso-8859-15'], 2):
            yield case('reparse-rewrite', [dict(W), {'op': 'FAULT', 'kind': 'disk.redeclare', 'params': {'path': '?', 'to': to}},
                                           {'op': 'PARSE', 'a': 0, 'path': '?', 'doc': 'p0'},
                                           dict(W, doc='p0')], rng.choice(priors), rng.choice(encs) if rng.random() < 0.5 else None)
        # 4c. the same for damaged files (truncated / rotted / flipped): the parser must fail the same way under
        #     every default encoding
        for enc in encs[1:]:
            dk = rng.choice(['disk.truncate', 'disk.token_rot', 'disk.flip'])
            dp = {'path': '?', 'offset': rng.randrange(1, 4000), 'bit': rng.randrange(8), 'index': rng.randrange(1000),
                  'k': rng.randrange(1000), 'what': rng.choice(['tag', 'attr-name', 'attr-value', 'text'])}
            yield case('parse-damaged', [dict(W), {'op': 'FAULT', 'kind': dk, 'params': dp},
                                         {'op': 'PARSE', 'a': 0, 'path': '?', 'doc': 'p0', 'c17ref': True},
                                         {'op': 'FAULT', 'kind': 'fs.encoding', 'params': {'encoding': enc}},
                                         {'op': 'PARSE', 'a': 0, 'path': '?', 'doc': 'p1', 'c17cmp': 'p0'}], priors[0], None)
        # 5. a broken node together with an injected encoding and an old score in place (the combination
        #    the property is about: the user's previous file is at stake)
        if nodes:
            path, nd = rng.choice(nodes)
            if nd.children and nd.xsd_check:
                yield case('break+old', [{'op': 'REMOVE', 'a': 0, 'p': path, 'i': 0}, dict(W)], priors[2], rng.choice(encs))
    return program(), {'nonascii': nonascii, 'size': size}


# ---------------------------------------------------------------------------------- C09: read seam
def wl_C09(rng, w, cfg, index):
    from . import docgen
    corrupt = rng.random() < cfg.get('p_corrupt', 0.5)
    writer = 'library' if rng.random() < 0.4 else 'foreign'
    if rng.random() < cfg.get('p_real', 0.06):
        writer = 'real-world export'
    nonascii = rng.random() < 0.4
    size = rng.randint(4, cfg.get('max_size', 40))

    def program():
        valid = False
        if writer == 'library':
            tree = docgen.gen_score(rng, size=size, nonascii=nonascii)
            if tree is None:
                return
            yield {'op': 'NEW', 'a': 0, 'doc': 'd0', 'c': tree}
            if 'd0' not in w.docs:
                return
            yield {'op': 'WRITE', 'a': 0, 'doc': 'd0', 'path': 'f.xml', 'ic': False}
            if w.events[-1]['r'] != 'ok':
                return
            valid = True       # C01 permitting; the model generated the tree
        elif writer == 'real-world export':
            # pinned excerpts of a real export shipped with the repository (validated against the XSD with
            # xmllint when they were cut); small ones, the matcher is super-linear in the children of a measure
            import os
            name = rng.choice(['hello_world.xml', 'bach_partita_3_first2.xml', 'bach_partita_3_first2.xml', 'bach_partita_3_first6.xml']
                              if cfg.get('big_real') else ['hello_world.xml', 'bach_partita_3_first2.xml'])
            data = open(os.path.join(os.path.dirname(os.path.dirname(os.path.abspath(__file__))), 'spec', 'samples', name), 'rb').read()
            yield {'op': 'FSPUT', 'path': 'f.xml', 'hex': data.hex()}
            valid = True
        else:
            # half of the foreign documents use every attribute form the schema allows; the other half stay
            # away from the forms the pinned library is known to reject outright (xml:lang, xlink:*, name=,
            # xml:space, source=) so that the lossless half of the property is explored beyond them
            tree = docgen.gen_score(rng, size=size, nonascii=nonascii, foreign=True if rng.random() < 0.5 else 'restricted')
            if tree is None:
                return
            text = docgen.to_xml(tree, style=rng.randrange(3))
            enc = 'utf-8'
            if rng.random() < 0.25:
                # other encodings a foreign tool may declare (the declaration is rewritten to match the bytes)
                enc = rng.choice(['utf-16', 'iso-8859-1', 'windows-1252', 'iso-8859-2', 'utf-8-sig'])
                decl = 'UTF-8' if enc == 'utf-8-sig' else enc.upper()
                text = text.replace('encoding="UTF-8"', 'encoding="%s"' % decl, 1)
                try:
                    text.encode(enc)
                except UnicodeEncodeError:
                    text = text.encode(enc, 'xmlcharrefreplace').decode(enc)
            if rng.random() < 0.2:
                # a comment of seeded length before the root element: large files, and read-block boundaries (8/16/64 KiB)
                # of a streaming reader fall at ever different places of the document
                pad = rng.choice([8192, 16384, 32768, 65536]) - rng.randrange(0, min(len(text), 6000) + 1)
                i = text.index('?>') + 2
                text = text[:i] + '\n<!--' + ('x' * max(0, pad - i - 9)) + '-->' + text[i:]
                w.count('c09.padded_documents')
            yield {'op': 'FSPUT', 'path': 'f.xml', 'hex': text.encode(enc).hex()}
            w.count('c09.foreign_encoding.' + enc)
            valid = True
        w.count('c09.documents.' + writer.split()[0])
        if rng.random() < 0.2:
            yield {'op': 'FAULT', 'kind': 'fs.encoding', 'params': {'encoding': rng.choice(['ascii', 'latin-1', 'cp1252'])}}
        n = len(w.fs.files.get(w.fs.mount + 'f.xml', b''))
        if corrupt and n:
            for _ in range(rng.choice([1, 1, 1, 2])):
                k = rng.choice(['disk.token_rot'] * 6 + ['disk.truncate', 'disk.flip', 'disk.zero_sector', 'disk.dup_sector',
                                                         'disk.swap_sectors', 'disk.recode'])
                sector = rng.choice([64, 128, 256, 512])
                p = {'path': 'f.xml', 'offset': rng.randrange(n), 'bit': rng.randrange(8), 'sector': sector,
                     'index': rng.randrange(1000), 'index2': rng.randrange(1000), 'k': rng.randrange(1000),
                     'what': rng.choice(['tag', 'attr-name', 'attr-value', 'text', 'text']),
                     'to': rng.choice(['latin-1', 'utf-16', 'cp1252'])}
                yield {'op': 'FAULT', 'kind': k, 'params': p}
        yield {'op': 'PARSE', 'a': 1, 'path': 'f.xml', 'doc': 'p', 'valid': valid, 'corrupted': corrupt, 'writer': writer}
    return program(), {'writer': writer, 'corrupt': corrupt, 'size': size}


# ---------------------------------------------------------------------------------- C20: thread programs
def wl_C20(rng, w, cfg, index):
    """One build-validate-serialise program on one own document (used as a thread's program)."""
    kit = Kit(rng, w, dict(cfg, p_opaque=0.3, p_attrs=0.6, max_depth=2))
    doc = cfg.get('doc', 'a0')
    elem = cfg.get('element') or gen.pick_elements(rng, 1, index)[0]

    def program():
        yield {'op': 'NEW', 'a': 0, 'doc': doc, 'c': kit.rootspec(elem, True)}
        root = w.docs.get(doc)
        if root is None:
            return
        m = spec.model_for_element(elem)
        word = m.sample_word(rng, maxlen=rng.randint(1, 2 if cfg.get('small') else 5))
        for x in word:
            yield {'op': 'ADD', 'a': 0, 'p': [doc], 'c': kit.childspec(x)}
        at = kit.valid_attrs(elem, 2)
        for k, v in at.items():
            yield {'op': 'ATTR_SET', 'a': 0, 'p': [doc], 'name': k, 'value': v}
        # values of every member type of the union types (font-size: number and CSS name), on a text child if any
        if rng.random() < 0.7:
            fs = [a for a in spec.attributes_of_element(elem) if a in ('font-size', 'number')]
            for a in fs[:1]:
                g, _b = spec.exemplars(spec.attributes_of_element(elem)[a]['type'])
                nums = [x for x in g if isinstance(x, float)] or g
                if nums:
                    yield {'op': 'ATTR_SET', 'a': 0, 'p': [doc], 'name': spec.py_attr_name(a), 'value': rng.choice(nums)}
        if getattr(m, 'alpha', None) and rng.random() < 0.75:
            # the xml_* shortcut resolves the class's child names on first use (seeded change C20-m7: a memo of
            # those names published before it is filled): read, assign an element and read an unknown name
            xs = list(m.alpha)
            yield {'op': 'DOT_GET', 'a': 0, 'p': [doc], 'name': rng.choice(xs)}
            x = rng.choice(xs)
            yield {'op': 'DOT_SET', 'a': 0, 'p': [doc], 'name': x, 'v': {'kind': 'element', 'c': kit.childspec(x)}}
            yield {'op': 'DOT_GET', 'a': 0, 'p': [doc], 'name': 'bogus_child'}
        if rng.random() < 0.6:
            # misuse is part of the programs too: an unknown attribute name by dot assignment / read / constructor
            yield {'op': 'ATTR_SET', 'a': 0, 'p': [doc], 'name': 'bogus', 'value': 1}
            yield {'op': 'ATTR_GET', 'a': 0, 'p': [doc], 'name': 'bogus'}
        # validate while (probably) incomplete: the refusal is part of the expected result
        yield {'op': 'TO_STRING', 'a': 0, 'p': [doc], 'ic': False}
        req = [a for a, d in spec.attributes_of_element(elem).items() if d['required'] and a in root.attrs and gen._attr_usable(a)]
        if req and rng.random() < 0.6:
            yield {'op': 'ATTR_SET', 'a': 0, 'p': [doc], 'name': spec.py_attr_name(req[0]), 'value': None}
            yield {'op': 'TO_STRING', 'a': 0, 'p': [doc], 'ic': False}
        yield from gen.complete(kit, 0, [doc], root)
        yield {'op': 'TO_STRING', 'a': 0, 'p': [doc], 'ic': False}
        if rng.random() < 0.4:
            yield {'op': 'DEEPCOPY', 'a': 0, 'p': [doc], 'doc': doc + 'c'}
            yield {'op': 'TO_STRING', 'a': 0, 'p': [doc + 'c'], 'ic': False}
        if rng.random() < 0.3 and root.children:
            yield {'op': 'REMOVE', 'a': 0, 'p': [doc], 'i': 0}
            yield {'op': 'CHECK', 'a': 0, 'p': [doc]}
    return program(), {'elements': [elem]}


# ---------------------------------------------------------------------------------- C19: union workload, high fault rate
def wl_C19(rng, w, cfg, index):
    cfg = dict(cfg)
    wts = dict(cfg.get('weights') or {})
    wts.update({'weird': 1.5, 'add_to_leaf': 0.8, 'add_bad': 2.5, 'add_foreign': 0.8, 'attr_bad': 0.8, 'value_bad': 0.6,
                'remove_stale': 0.5, 'readd': 0.8, 'remove_elsewhere': 0.5})
    for k in ('add_bad', 'add_foreign', 'attr_bad', 'value_bad', 'weird'):
        wts[k] = max(wts.get(k, 0), 0.6)
    cfg['weights'] = wts
    if rng.random() < 0.15:
        # any of the 441 classes as root (types with namespaced attributes included)
        kit = Kit(rng, w, cfg)
        elem = spec.ALL_ELEMENTS[index % len(spec.ALL_ELEMENTS)]

        def program():
            cs = {'name': elem, 'value': gen.default_value(elem), 'attrs': {}, 'xsd_check': True}
            if rng.random() < 0.3:
                cs['value'] = rng.choice([True, False, 1e-05, [], {}, '', None, 0])
            yield {'op': 'NEW', 'a': 0, 'doc': 'd0', 'c': cs}
            if 'd0' not in w.docs:
                return
            for _ in range(rng.randint(1, 6)):
                r = rng.random()
                if r < 0.3:
                    yield {'op': 'ADD', 'a': 0, 'p': ['d0'], 'c': kit.childspec(rng.choice(spec.ALL_ELEMENTS), opaque=True)}
                elif r < 0.6:
                    table = list(spec.attributes_of_element(elem))
                    name = spec.py_attr_name(rng.choice(table)) if table and rng.random() < 0.7 else rng.choice(['bogus', 'name', 'level'])
                    yield {'op': 'ATTR_SET', 'a': 0, 'p': ['d0'], 'name': name, 'value': rng.choice(['x', 1, True, None, 2.5, 'yes'])}
                elif r < 0.75:
                    yield {'op': 'VALUE_SET', 'a': 0, 'p': ['d0'], 'value': rng.choice([True, False, 1e-05, [], '', 'a', 3, 2.5])}
                elif r < 0.85:
                    yield {'op': 'ATTR_GET', 'a': 0, 'p': ['d0'], 'name': rng.choice(['id', 'bogus', 'type', 'default_x'])}
                else:
                    yield {'op': 'TO_STRING', 'a': 0, 'p': ['d0'], 'ic': rng.random() < 0.3}
            if rng.random() < 0.3:
                yield {'op': 'FAULT', 'kind': 'stdout.closed', 'params': {'on': True}}
                yield {'op': 'TO_STRING', 'a': 0, 'p': ['d0'], 'ic': True}
        return program(), {'elements': [elem], 'shape': 'any-class'}
    prog, info = wl_history(rng, w, cfg, index)
    if rng.random() < 0.2:
        def with_closed():
            yield {'op': 'FAULT', 'kind': 'stdout.closed', 'params': {'on': True}}
            yield from prog
        return with_closed(), info
    return prog, info


def _attr_kinds():
    """(element, attribute, kind) for every declared pair the pinned library can be given; kind = simple-type kind."""
    global _AK
    try:
        return _AK
    except NameError:
        pass
    out = []
    for n in spec.ALL_ELEMENTS:
        for a, d in spec.attributes_of_element(n).items():
            if gen._attr_usable(a) and a not in ('xml:lang', 'source'):
                out.append((n, a, spec.simple_info(d['type'])['kind'], d['type'], d['required']))
    _AK = out
    return out


def wl_C20probe(rng, w, cfg, index):
    """Thread program that touches many lazily initialised per-type tables: standalone elements of many classes,
    each given attributes of different simple-type kinds (every member type of the union types, enumerations,
    patterns, numbers, tokens), validated and serialised; some lack a required attribute on purpose (the refusal is
    part of the expected result); extension types, simple content, a deep copy."""
    ak = _attr_kinds()
    doc0 = cfg.get('doc', 'a')

    def program():
        chosen = []
        kinds = sorted({k for (_n, _a, k, _t, _r) in ak})
        unions = [x for x in ak if x[2] == 'union']
        ext = [x for x in ak if x[0] in ('heel', 'toe', 'strong-accent', 'mordent', 'inverted-mordent', 'metronome-tuplet')]
        req = [x for x in ak if x[4]]
        if cfg.get('small'):
            # quick tier: few classes, so that every first-use window of the program can be swept completely
            chosen = [rng.choice(unions), rng.choice(req)] + ([rng.choice(ext)] if ext and rng.random() < 0.5 else [])
            for k in rng.sample(kinds, 3):
                chosen.append(rng.choice([x for x in ak if x[2] == k]))
        else:
            for k in kinds:      # one of each simple-type kind first
                chosen.append(rng.choice([x for x in ak if x[2] == k]))
            for _ in range(cfg.get('extra_elements', 6)):
                chosen.append(rng.choice(ak))
            chosen += [rng.choice(unions), rng.choice(unions)] + ([rng.choice(ext)] if ext else []) + [rng.choice(req), rng.choice(req)]
        rng.shuffle(chosen)
        for j, (n, a, k, t, r) in enumerate(chosen):
            doc = '%s%d' % (doc0, j)
            g, b = spec.exemplars(t)
            d = spec.attributes_of_element(n)[a]
            if d.get('fixed') is not None:
                g = [d['fixed']]
            if not g:
                continue
            vals = [rng.choice(g)]
            if k == 'union':
                nums = [x for x in g if isinstance(x, (int, float))]
                strs = [x for x in g if isinstance(x, str)]
                vals = ([rng.choice(nums)] if nums else []) + ([rng.choice(strs)] if strs else [])
            attrs = {}
            leave_out_required = r and rng.random() < 0.5
            if not leave_out_required:
                attrs[spec.py_attr_name(a)] = vals[0]
            cs = {'name': n, 'value': gen.default_value(n), 'attrs': attrs, 'xsd_check': True}
            yield {'op': 'NEW', 'a': 0, 'doc': doc, 'c': cs}
            if doc not in w.docs:
                continue
            for v in vals[1:]:
                yield {'op': 'ATTR_SET', 'a': 0, 'p': [doc], 'name': spec.py_attr_name(a), 'value': v}
            if b and rng.random() < 0.3:
                yield {'op': 'ATTR_SET', 'a': 0, 'p': [doc], 'name': spec.py_attr_name(a), 'value': rng.choice(b)}
            if rng.random() < 0.3:
                yield {'op': 'ATTR_SET', 'a': 0, 'p': [doc], 'name': 'bogus', 'value': 'x'}
            m = spec.model_for_element(n)
            if m is not None:
                for x in (m.missing([]) or [])[:4]:
                    yield {'op': 'ADD', 'a': 0, 'p': [doc], 'c': gen.default_childspec(x)}
            yield {'op': 'TO_STRING', 'a': 0, 'p': [doc], 'ic': False}
            if rng.random() < 0.15:
                yield {'op': 'DEEPCOPY', 'a': 0, 'p': [doc], 'doc': doc + 'c'}
    return program(), {'shape': 'lazy-table probes'}


def prog_attrs(kit, actor, doc, cfg):
    """C13 attribute actor: an element of any of the 441 classes, attributes drawn from its own table and from
    the tables of *other* types (siblings of an extension base, same-named attributes elsewhere), reads, serialise.
    Whether a name is accepted must not depend on what other instances did before."""
    rng = kit.rng
    w = kit.w
    elem = rng.choice(spec.ALL_ELEMENTS)
    yield {'op': 'NEW', 'a': actor, 'doc': doc, 'c': {'name': elem, 'value': gen.default_value(elem), 'attrs': {}, 'xsd_check': True}}
    if doc not in w.docs:
        return
    own = [a for a in spec.attributes_of_element(elem) if gen._attr_usable(a)]
    pool = ['substitution', 'accelerate', 'beats', 'long', 'approach', 'departure', 'type', 'number', 'placement', 'bracket',
            'show-number', 'line-shape', 'id', 'default-x', 'color', 'font-size']
    for _ in range(rng.randint(2, 7)):
        r = rng.random()
        if own and r < 0.45:
            a = rng.choice(own)
            g, b = spec.exemplars(spec.attributes_of_element(elem)[a]['type'])
            if g:
                yield {'op': 'ATTR_SET', 'a': actor, 'p': [doc], 'name': spec.py_attr_name(a), 'value': rng.choice(g)}
        elif r < 0.8:
            a = rng.choice(pool)
            yield {'op': 'ATTR_SET', 'a': actor, 'p': [doc], 'name': a.replace('-', '_'), 'value': rng.choice(['yes', 'no', 1, 2.5, 'x', 'above'])}
        elif r < 0.9:
            yield {'op': 'ATTR_GET', 'a': actor, 'p': [doc], 'name': rng.choice(pool).replace('-', '_')}
        else:
            yield {'op': 'TO_STRING', 'a': actor, 'p': [doc], 'ic': False}
    yield {'op': 'READ', 'a': actor, 'p': [doc], 'which': 'attributes'}


def probe_ops(rng, n=6):
    """Fresh-instance probes appended to C13 runs (documents 'canaryP*'): elements of random classes offered values
    that are literals of a *related* enumeration (base / sibling type) or ordinary valid / invalid exemplars.  Their
    outcomes in a pristine process are the reference (projection twin)."""
    ak = _attr_kinds()
    out = []
    enums = [x for x in ak if x[2] == 'enum']
    for j in range(n):
        (name, a, k, t, r) = rng.choice(enums) if rng.random() < 0.6 else rng.choice(ak)
        g, b = spec.exemplars(t)
        pool = (b[2:] if len(b) > 2 and rng.random() < 0.6 else b) + (g[:1] if rng.random() < 0.4 else [])
        if not pool:
            continue
        doc = 'canaryP%d' % j
        out.append({'op': 'NEW', 'a': 9, 'doc': doc, 'c': {'name': name, 'value': default_value(name), 'attrs': {}, 'xsd_check': True}})
        out.append({'op': 'ATTR_SET', 'a': 9, 'p': [doc], 'name': spec.py_attr_name(a), 'value': rng.choice(pool)})
    # simple-content elements with a related literal as value
    vals = [n for n in spec.ALL_ELEMENTS if spec.type_kind(spec.ELEM_TYPE[n]) == 'simple']
    for j in range(3):
        name = rng.choice(vals)
        g, b = spec.element_value_exemplars(name)
        if b:
            out.append({'op': 'NEW', 'a': 9, 'doc': 'canaryV%d' % j, 'c': {'name': name, 'value': rng.choice(b), 'attrs': {}, 'xsd_check': True}})
    return out


from .world import default_value  # noqa: E402


def prog_values(kit, actor, cfg):
    """C13 actor: many small standalone elements with simple content / enumerated attributes, all *valid* - the
    neighbours whose tables and caches later probes must not inherit."""
    rng = kit.rng
    ak = _attr_kinds()
    vals = [n for n in spec.ALL_ELEMENTS if spec.type_kind(spec.ELEM_TYPE[n]) == 'simple']
    for j in range(rng.randint(3, 10)):
        if rng.random() < 0.5:
            name = rng.choice(vals)
            g, _b = spec.element_value_exemplars(name)
            if g:
                yield {'op': 'NEW', 'a': actor, 'doc': 'v%d' % j, 'c': {'name': name, 'value': rng.choice(g), 'attrs': {}, 'xsd_check': True}}
        else:
            (name, a, k, t, r) = rng.choice(ak)
            g, _b = spec.exemplars(t)
            if g:
                yield {'op': 'NEW', 'a': actor, 'doc': 'v%d' % j, 'c': {'name': name, 'value': default_value(name),
                                                                        'attrs': {spec.py_attr_name(a): rng.choice(g)}, 'xsd_check': True}}


def prog_related(kit, actor, cfg):
    """C13 actor built from the schema's derived/base simple-type pairs (a restriction of another named type):
    first the *base* type is given a value that the derived type must reject, then a fresh element of the derived
    type is offered the same value.  Its verdict alone in a pristine process is the reference (projection twin)."""
    rng = kit.rng
    pairs = []
    for d, b in spec.derived_type_pairs():
        pd, pb = spec.positions_of_type(d), spec.positions_of_type(b)
        if pd and pb:
            pairs.append((d, b, pd, pb))
    if not pairs:
        return
    for j in range(rng.randint(1, 3)):
        d, b, pd, pb = rng.choice(pairs)
        gb, _bb = spec.exemplars(b)
        gd, bd = spec.exemplars(d)
        cands = [v for v in gb if not any(v == x and type(v) is type(x) for x in gd)]
        cands += [v for v in bd if any(v == x and type(v) is type(x) for x in gb)]
        if not cands:
            continue
        v = rng.choice(cands)
        order = [('b', rng.choice(pb)), ('d', rng.choice(pd))]
        if rng.random() < 0.2:
            order.reverse()
        for tag, pos in order:
            doc = 'r%s%d' % (tag, j)
            if pos[0] == 'value':
                yield {'op': 'NEW', 'a': actor, 'doc': doc, 'c': {'name': pos[1], 'value': v, 'attrs': {}, 'xsd_check': True}}
            else:
                yield {'op': 'NEW', 'a': actor, 'doc': doc, 'c': {'name': pos[1], 'value': default_value(pos[1]), 'attrs': {}, 'xsd_check': True}}
                if doc in kit.w.docs:
                    yield {'op': 'ATTR_SET', 'a': actor, 'p': [doc], 'name': spec.py_attr_name(pos[2]), 'value': v}



def prog_related_complex(kit, actor, cfg):
    """C13 actor built from the schema's complexContent extensions: an element of the *derived* type is given the
    attributes its extension adds; then fresh elements of the *base* type (and of sibling extensions) are offered
    those names.  Their verdict alone in a pristine process is the reference (projection twin)."""
    rng = kit.rng
    pairs = [(d, b, added) for d, b, added in spec.complex_extension_pairs()
             if added and spec.elements_of_type(d) and (spec.elements_of_type(b) or True)]
    if not pairs:
        return
    for j in range(rng.randint(1, 2)):
        d, b, added = rng.choice(pairs)
        de = rng.choice(spec.elements_of_type(d))
        yield {'op': 'NEW', 'a': actor, 'doc': 'cd%d' % j, 'c': {'name': de, 'value': default_value(de), 'attrs': {}, 'xsd_check': True}}
        if 'cd%d' % j in kit.w.docs:
            for a in added[:2]:
                g, _b = spec.exemplars(spec.attributes_of_element(de)[a]['type'])
                if g:
                    yield {'op': 'ATTR_SET', 'a': actor, 'p': ['cd%d' % j], 'name': spec.py_attr_name(a), 'value': rng.choice(g)}
            yield {'op': 'TO_STRING', 'a': actor, 'p': ['cd%d' % j], 'ic': False}
        sibs = spec.elements_of_type(b)
        for d2, b2, _ad in spec.complex_extension_pairs():
            if b2 == b and d2 != d:
                sibs = sibs + spec.elements_of_type(d2)
        rng.shuffle(sibs)
        for k, be in enumerate(sibs[:3]):
            doc = 'cb%d_%d' % (j, k)
            yield {'op': 'NEW', 'a': actor, 'doc': doc, 'c': {'name': be, 'value': default_value(be), 'attrs': {}, 'xsd_check': True}}
            if doc in kit.w.docs:
                a = rng.choice(added)
                if a not in spec.attributes_of_element(be):
                    g, _b = spec.exemplars(spec.attributes_of_element(de)[a]['type'])
                    if g:
                        yield {'op': 'ATTR_SET', 'a': actor, 'p': [doc], 'name': spec.py_attr_name(a), 'value': rng.choice(g),
                               'fault': 'rej.bad_attr_name'}
                yield {'op': 'READ', 'a': actor, 'p': [doc], 'which': 'attributes'}
                yield {'op': 'TO_STRING', 'a': actor, 'p': [doc], 'ic': False}



# ---------------------------------------------------------------------------------- C06: conservation
def wl_C06(rng, w, cfg, index):
    """Emphasis on removal / replacement / forward adds after a particle was duplicated, on re-homing
    (intelligent choice) and on rejected calls in between."""
    cfg = dict(cfg)
    wts = dict(cfg.get('weights') or {})
    if rng.random() < 0.6:
        wts.update({'remove': 4.0, 'replace': 2.0, 'fwd': 1.5, 'dot_none': 1.0, 'readd': 0.8})
        cfg['shape'] = rng.choice(['fill_max', 'alternate_choice', 'valid_permuted', 'add_remove_cycles', 'uniform', 'dup_then_remove'])
        cfg['nsteps'] = rng.randint(4, 14)
    cfg['weights'] = wts
    return wl_history(rng, w, cfg, index)

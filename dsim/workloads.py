"""Per-property workloads (which programs run, under which swarm configuration) and the in-run
checkers that judge them."""
from . import spec, gen, checkers
from .gen import Kit


def checkers_for(prop, opts):
    c = [checkers.Reach()]
    table = {
        'C01': [checkers.C01ValidOutput],
        'C06': [checkers.C06Conservation],
        'C07': [checkers.C07NoDeadEnd],
        'C12': [checkers.C12Compatible, checkers.C12Unique],
        'C19': [checkers.C19Documented],
    }
    for k in table.get(prop, []):
        c.append(k())
    for name in opts.get('extra_checkers', []):
        c.append(getattr(checkers, name)())
    return c


def swarm(rng, cfg):
    """Per-run configuration drawn from the seed (swarm style)."""
    c = {
        'p_opaque': rng.choice([0.6, 0.8, 0.95, 1.0]),
        'p_attrs': rng.choice([0.0, 0.2, 0.5]),
        'p_ic': rng.choice([0.0, 0.25, 0.6]),
        'p_deep': rng.choice([0.0, 0.15, 0.35]),
        'max_depth': rng.choice([1, 2, 2, 3]),
        'p_final_serialise': rng.choice([0.4, 0.8, 1.0]),
    }
    # random subset of fault kinds enabled
    w = {}
    for k in ('add_bad', 'add_foreign', 'attr_bad', 'value_bad', 'remove_foreign'):
        if rng.random() < 0.35:
            w[k] = 0.0
    for k in ('to_string_ic', 'check_ic'):
        if c['p_ic'] == 0.0:
            w[k] = 0.0
    if rng.random() < 0.3:
        w['remove'] = 4
        w['replace'] = 2
    c['weights'] = w
    c.update(cfg)
    if cfg.get('weights'):
        ww = dict(w)
        ww.update(cfg['weights'])
        c['weights'] = ww
    return c


def build(prop, rng, w, cfg, index):
    fn = globals().get('wl_' + prop, wl_history)
    return fn(rng, w, swarm(rng, cfg), index)


def wl_history(rng, w, cfg, index):
    kit = Kit(rng, w, cfg)
    nact = cfg.get('actors') or rng.choice([1, 1, 1, 2])
    elems = gen.pick_elements(rng, nact, index)
    progs = [gen.prog_history(kit, a, 'd%d' % a, elems[a], cfg) for a in range(nact)]
    return gen.interleave(rng, progs), {'elements': elems, 'actors': nact, 'cfg': _brief(cfg)}


def wl_C12(rng, w, cfg, index):
    kit = Kit(rng, w, cfg)
    elem = gen.pick_elements(rng, 1, index)[0]
    if rng.random() < 0.5:
        return prog_unique_permutation(kit, 0, 'd0', elem, cfg), {'elements': [elem], 'shape': 'unique_permutation'}
    return gen.interleave(rng, [gen.prog_history(kit, 0, 'd0', elem, cfg)]), {'elements': [elem], 'shape': 'history'}


def prog_unique_permutation(kit, actor, doc, elem, cfg):
    """C12 (a): a valid word whose multiset has exactly one arrangement (as a name sequence), fed in a
    seeded permutation."""
    rng = kit.rng
    model = spec.model_for_element(elem)
    word = None
    for _ in range(12):
        cand = model.sample_word(rng, maxlen=rng.randint(2, 7))
        if 2 <= len(cand) <= 8 and len(model.arrangements(cand, limit=3)) == 1:
            word = cand
            break
    yield {'op': 'NEW', 'a': actor, 'doc': doc, 'c': kit.rootspec(elem, True)}
    if word is None:
        return
    arr = list(model.arrangements(word, limit=3)[0])
    perm = list(word)
    rng.shuffle(perm)
    kit.w.count('c12.unique_words')
    for i, x in enumerate(perm):
        yield {'op': 'ADD', 'a': actor, 'p': [doc], 'c': kit.childspec(x),
               'c12': {'arr': arr, 'last': i == len(perm) - 1}}
    if rng.random() < 0.5:
        yield {'op': 'TO_STRING', 'a': actor, 'p': [doc], 'ic': False}


def _brief(cfg):
    return {k: v for k, v in cfg.items() if k != 'weights'}

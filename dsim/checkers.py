"""In-run oracles: invariants evaluated while a run proceeds (after every operation).
Each judges public behaviour only, against the shadow and the reference model."""
import re
import xml.etree.ElementTree as ET

from . import spec
from .world import Checker, schema_attr_name, infork, default_childspec

MUTATING = ('ADD', 'REMOVE', 'REPLACE', 'DOT_SET', 'NEW', 'DEEPCOPY', 'TO_STRING', 'CHECK', 'PARSE')


def _doc_of(op):
    if 'p' in op:
        return op['p'][0]
    return op.get('doc')


def parse_children(text):
    """xml text -> ET root (or None)"""
    try:
        return ET.fromstring(text)
    except ET.ParseError:
        return None


# ---------------------------------------------------------------------------------- C06
class C06Conservation(Checker):
    """After every step: ordered view is a permutation (by identity) of the insertion view, the
    insertion view equals the shadow list, parents are right, removed children have no parent;
    when serialisation succeeds the output has exactly one element per shadow child; a replacement by a
    child of the same name takes the replaced child's place in the schema-ordered view ("replacements
    substituted")."""

    def before(self, w, op):
        self.pre_od = None
        if op['op'] == 'REPLACE' and 'raw' not in op and not op.get('foreign'):
            node = w.node(op['p'])
            if node is not None and node.xsd_check and op['i'] < len(node.children) and \
                    node.children[op['i']].name == (op.get('c') or {}).get('name'):
                self.pre_od = (node, w.cheap(node)['od'])

    def after(self, w, op, ev):
        if getattr(self, 'pre_od', None) is not None and ev['r'] == 'ok':
            node, od0 = self.pre_od
            od1 = w.cheap(node)['od']
            if all(isinstance(x, int) for x in od0) and sorted(od0) == list(range(len(node.children))) and od1 != od0:
                w.violate('C06', 'replacement-not-in-place', {'elem': node.name, 'ordered_before': od0, 'ordered_after': od1,
                                                              'replaced_index': op['i']})
                return
        if op['op'] not in MUTATING or ev['r'] == 'skip':
            return
        d = _doc_of(op)
        root = w.docs.get(d)
        if root is None:
            return
        seen = 0
        focus = w.node(op['p']) if 'p' in op else None
        order = list(focus.walk())[:30] if focus is not None else []
        # the element operated on (and what hangs below it) first, then the rest of the document, 60 nodes at most
        order += [n for n in root.walk() if not any(n is x for x in order)]
        for n in order:
            seen += 1
            if seen > 60:
                break
            if not n.children and not n.xsd_check:
                continue
            c = w.cheap(n)
            want = list(range(len(n.children)))
            if c['un'] != want:
                w.violate('C06', 'insertion-view-differs', {'elem': n.name, 'got': c['un'], 'want': want})
                return
            if n.xsd_check:
                if sorted(map(str, c['od'])) != sorted(map(str, want)):
                    extra = [x for x in c['od'] if c['od'].count(x) > 1 or x not in want]
                    clause = 'ordered-view-extra' if (len(c['od']) > len(want) or extra) else 'ordered-view-lost'
                    w.violate('C06', clause, {'elem': n.name, 'ordered': c['od'], 'insertion': c['un'],
                                              'names': [k.name for k in n.children]})
                    return
            if not all(x is True for x in c['par']):
                w.violate('C06', 'parent-link-wrong', {'elem': n.name, 'par': c['par']})
                return
        for r in w.removed[-6:]:
            if r.parent is not None or any(r is d for d in w.docs.values()):
                continue        # re-attached since
            try:
                p = r.el.get_parent()
            except Exception as e:
                p = e
            if p is not None:
                w.violate('C06', 'removed-still-parented', {'elem': r.name})
                return
        if op['op'] == 'TO_STRING' and ev['r'] == 'ok':
            node = w.node(op['p'])
            et = parse_children(w.text)
            if et is None:
                return   # C16's business
            bad = _compare_counts(node, et)
            if bad:
                w.violate('C06', 'output-count-differs', bad)


def _compare_counts(node, et):
    """Each shadow child appears exactly once: compare multisets of child names at every level."""
    st = [(node, et)]
    while st:
        n, e = st.pop()
        want = sorted(c.name for c in n.children)
        got = sorted(k.tag for k in e)
        if want != got:
            return {'elem': n.name, 'shadow': want, 'output': got}
        # pair children by name and per-name order of appearance in the shadow's schema order is
        # unknown; pair k-th same-named output element with *some* same-named shadow child having the
        # same number of children (structure check only one level deeper by multiset)
        byname = {}
        for c in n.children:
            byname.setdefault(c.name, []).append(c)
        for k in e:
            cands = byname.get(k.tag, [])
            if len(cands) == 1:
                st.append((cands[0], k))
    return None


# ---------------------------------------------------------------------------------- C01
class C01ValidOutput(Checker):
    """Whenever TO_STRING / WRITE returns normally: for every element whose shadow is checked along
    the whole path from the serialised root, its child-name sequence is a word of its content model."""

    def after(self, w, op, ev):
        if op['op'] == 'WRITE' and ev['r'] == 'ok':
            node = w.docs.get(op['doc'])
            data = w.fs.files.get(w.fs.mount + op['path'])
            if node is None or not node.xsd_check or data is None:
                return
            try:
                et = ET.fromstring(data)
            except ET.ParseError:
                return
            w.count('c01.written_files_judged')
            bad = check_tree_valid(node, et, top=True)
            if bad:
                w.violate('C01', bad[0], dict(bad[1], via='write'))
            return
        if op['op'] != 'TO_STRING' or ev['r'] != 'ok':
            return
        node = w.node(op['p'])
        if node is None or not node.xsd_check:
            return
        et = parse_children(w.text)
        if et is None:
            return
        w.count('c01.outputs_judged')
        bad = check_tree_valid(node, et, top=True)
        if bad:
            w.violate('C01', bad[0], bad[1])


_TAINT = set()      # sids of nodes whose xsd_check was switched after construction (judged as unchecked)


def check_tree_valid(node, et, top=False):
    """Walk shadow and output together; shadow tells which elements are checked."""
    # the serialised root is checked (the caller made sure): its final checks recurse into *every* descendant and
    # each descendant that is itself checked is validated, also below an unchecked element (the setting is per
    # element); only the elements that are themselves unchecked are exempt
    st = [(node, et, True)]
    while st:
        n, e, checked_path = st.pop()
        checked_here = n.xsd_check and not n.sid in _TAINT
        names = [k.tag for k in e]
        if checked_here:
            m = spec.model_for_element(n.name)
            if m is not None:
                if not m.accepts(names):
                    alpha = set(m.alpha)
                    if any(x not in alpha for x in names):
                        return ('wrong-child-emitted', {'elem': n.name, 'word': names})
                    if m.is_prefix(names) or m.arrangeable(names):
                        # a prefix of a word / a rearrangement is a word: something required is missing or order wrong
                        clause = 'missing-required-emitted' if m.is_prefix(names) else 'invalid-sequence'
                        return (clause, {'elem': n.name, 'word': names})
                    return ('invalid-sequence', {'elem': n.name, 'word': names})
            elif names:
                return ('wrong-child-emitted', {'elem': n.name, 'word': names})
        # descend: pair output children with shadow children; identity is not visible in the text, so
        # pair per name in order of the shadow's same-name insertion order (C12 says same-named keep
        # insertion order); only used to know whether a child is checked
        # which output element is which shadow child: serialisation walks the element's own get_children(), so the
        # k-th output child is the k-th element of that (public) view; an element that is not a shadow child (a ghost,
        # a replaced-out child still being emitted) is C06's business and nothing below it is judged
        try:
            lib_kids = list(n.el.get_children())
        except Exception:
            continue
        if len(lib_kids) != len(e):
            continue
        by_id = {id(c.el): c for c in n.children}
        for lk, k in zip(lib_kids, e):
            c = by_id.get(id(lk))
            if c is not None and c.name == k.tag:
                st.append((c, k, checked_here))
    return None


# ---------------------------------------------------------------------------------- C07
class C07NoDeadEnd(Checker):
    """After each accepted plain addition (ADD without forward, DOT_SET that added) to a checked
    element: the multiset of children must be extendable to a word of the content model."""

    def after(self, w, op, ev):
        if ev['r'] != 'ok':
            return
        if op['op'] == 'ADD':
            # with or without `forward`: the caller may pick among same-named slots, but a success must
            # still leave the element completable
            node = w.node(op['p'])
        elif op['op'] == 'DOT_SET' and op['v']['kind'] in ('value', 'element'):
            node = w.node(op['p'])
        else:
            return
        if node is None or not node.xsd_check:
            return
        m = spec.model_for_element(node.name)
        if m is None:
            return
        ms = [c.name for c in node.children]
        w.count('c07.accepted_adds_judged' + ('.forward' if op.get('fwd') is not None else ''))
        if not m.extendable(ms):
            w.violate('C07', 'dead-end-accepted', {'elem': node.name, 'children': ms})


# ---------------------------------------------------------------------------------- C12 (b)
class C12Compatible(Checker):
    """A child is never rejected while it, together with the children already present, can still be
    arranged into (part of) a valid sequence."""

    def before(self, w, op):
        self.pre = None
        if op['op'] == 'ADD' and op.get('fwd') is None:
            node = w.node(op['p'])
            if node is not None and node.xsd_check:
                self.pre = [c.name for c in node.children]

    def after(self, w, op, ev):
        if self.pre is None or ev['r'] != 'exc' or ev.get('stage') != 'add':
            return
        node = w.node(op['p'])
        m = spec.model_for_element(node.name)
        if m is None:
            return
        w.count('c12.rejections_judged')
        if m.extendable(self.pre + [op['c']['name']]):
            w.violate('C12', 'compatible-child-rejected',
                      {'elem': node.name, 'children': self.pre, 'offered': op['c']['name'], 'exc': ev['t']})


class C12Unique(Checker):
    """(a) unique-arrangement words fed in a permutation: every add accepted and the ordered view is
    that arrangement, same-named children in the order they were added.  The program marks its ops
    with 'c12': {'arr': [...]} on the last add."""

    def after(self, w, op, ev):
        ser = op.get('c12ser')
        if ser and ser.get('usable') and ev['r'] != 'skip':
            node = w.node(op['p'])
            if node is None or sorted(c.name for c in node.children) != sorted(ser['arr']):
                return
            w.count('c12.unique_serialisations_judged')
            suffix = '[ic]' if op.get('ic') else ''
            if ev['r'] == 'exc':
                w.violate('C12', 'unique-arrangement-not-serialised' + suffix, {'elem': node.name, 'arrangement': ser['arr'], 'exc': ev['t']})
            else:
                et = parse_children(w.text)
                if et is not None and [k.tag for k in et] != list(ser['arr']):
                    w.violate('C12', 'unique-arrangement-misordered', {'elem': node.name, 'got': [k.tag for k in et], 'want': list(ser['arr']), 'via': 'to_string' + suffix})
            return
        tag = op.get('c12')
        if not tag:
            return
        node = w.node(op['p'])
        if node is None:
            return
        if ev['r'] == 'exc' and ev.get('stage') == 'add':
            w.violate('C12', 'unique-arrangement-rejected', {'elem': node.name, 'children': [c.name for c in node.children],
                                                             'offered': op['c']['name'], 'exc': ev['t']})
            return
        if ev['r'] != 'ok' or not tag.get('last'):
            return
        arr = tag['arr']
        if sorted(arr) != sorted(c.name for c in node.children):
            return   # an earlier add failed; already reported
        c = w.cheap(node)
        od = c['od']
        if any(not isinstance(i, int) for i in od) or len(od) != len(node.children):
            return   # C06's business
        names = [node.children[i].name for i in od]
        if names != list(arr):
            w.violate('C12', 'unique-arrangement-misordered', {'elem': node.name, 'got': names, 'want': list(arr)})
            return
        # same-named children in insertion order
        last = {}
        for i in od:
            nm = node.children[i].name
            if nm in last and last[nm] > i:
                w.violate('C12', 'same-name-order-changed', {'elem': node.name, 'ordered_indices': od})
                return
            last[nm] = i


# ---------------------------------------------------------------------------------- C19
class C19Documented(Checker):
    """Every exception escaping a public call is one of the documented rejection types (classified
    behaviourally, never by message); nothing is written to stdout/stderr; no call exceeds the
    function-entry budget."""

    PUBLIC = {'construct': 'constructor', 'add': 'add_child', 'remove': 'remove', 'replace': 'replace_child',
              'dot_set': 'dot assignment', 'dot_get': 'dot read', 'attr_set': 'attribute assignment',
              'attr_get': 'attribute read', 'value_set': 'value assignment', 'to_string': 'to_string',
              'check': 'final check', 'read': 'read', 'deepcopy': 'deepcopy', 'write': 'write', 'parse': 'parse_musicxml'}

    def after(self, w, op, ev):
        if ev.get('stdout'):
            w.violate('C19', 'stdout', {'in': self.opname(op, ev), 'text': scrub(w.cap[0][:160])})
        if ev.get('stderr'):
            w.violate('C19', 'stderr', {'in': self.opname(op, ev), 'text': scrub(w.cap[1][:160])})
        if ev['r'] != 'exc':
            return
        e = w.last_exc
        t = ev['t']
        if t == 'SimHang':
            w.violate('C19', 'hang', {'in': self.opname(op, ev)})
            return
        if t == 'SimInterrupt':
            return
        if isinstance(e, OSError) and op['op'] in ('WRITE', 'PARSE'):
            return   # injected / file-system errors propagate; that is correct
        if op['op'] == 'PARSE':
            # the parser's documented failure modes include XML syntax errors
            if isinstance(e, (ET.ParseError, UnicodeError, NameError, SyntaxError)):
                return
        if isinstance(e, w.lib.documented):
            if w.stdout_closed and isinstance(e, ValueError) and 'closed file' in str(e):
                w.violate('C19', 'stdout', {'in': self.opname(op, ev), 'closed': True})
            return
        if isinstance(e, AttributeError) and self.unknown_dot_name(w, op):
            return
        w.violate('C19', 'internal:%s' % t, {'in': self.opname(op, ev), 'raised_in': _where(e, w.lib.path)})

    OPS = {'NEW': 'constructor', 'ADD': 'add_child', 'REMOVE': 'remove', 'REPLACE': 'replace_child', 'DOT_SET': 'dot assignment',
           'DOT_GET': 'dot read', 'ATTR_SET': 'attribute assignment', 'ATTR_GET': 'attribute read', 'VALUE_SET': 'value assignment',
           'TO_STRING': 'to_string', 'CHECK': 'final check', 'READ': 'read', 'DEEPCOPY': 'deepcopy', 'WRITE': 'write',
           'PARSE': 'parse_musicxml'}

    def opname(self, op, ev):
        return self.PUBLIC.get(ev.get('stage')) or self.OPS.get(op['op'], op['op'].lower())

    def unknown_dot_name(self, w, op):
        """AttributeError is documented only for a dot read/write whose name the model says is neither
        an attribute nor a child of that element."""
        k = op['op']
        if k in ('ATTR_SET', 'ATTR_GET'):
            node = w.node(op['p'])
            return node is not None and schema_attr_name(node.name, op['name']) is None
        if k in ('DOT_SET', 'DOT_GET'):
            node = w.node(op['p'])
            if node is None:
                return False
            m = spec.model_for_element(node.name)
            return m is None or op['name'] not in m.alpha
        return False


_ADDR = re.compile(r'0x[0-9a-fA-F]+')


def scrub(text):
    return _ADDR.sub('0x?', text)


def _where(e, libpath):
    tb = e.__traceback__
    last = None
    while tb is not None:
        fn = tb.tb_frame.f_code.co_filename
        if fn.startswith(libpath) or 'verysimpletree' in fn:
            last = '%s:%s' % (fn.rsplit('/', 1)[-1], tb.tb_frame.f_code.co_name)
        tb = tb.tb_next
    return last


# ---------------------------------------------------------------------------------- reach probes
class Reach(Checker):
    """Counts abstract states and rare conditions from the public side (no trace)."""

    def after(self, w, op, ev):
        if op['op'] == 'NEW' and ev['r'] == 'ok':
            w.cover.add('type:' + op['c']['name'])
        if op['op'] == 'XSD_CHECK_SET' and ev['r'] == 'ok':
            n0 = w.node(op['p'])
            if n0 is not None:
                _TAINT.add(n0.sid)
        if 'p' in op:
            node = w.node(op['p'])
            if node is not None:
                w.note_state(node)
        f = op.get('fault')
        if f == 'obs.interpose':
            w.count('fault.obs.interpose')
        elif f and ev['r'] == 'exc':
            w.count('fault.' + f)
        elif f:
            w.count('fault.' + f + '.not_fired')
        elif ev['r'] == 'exc' and op['op'] in ('ADD', 'DOT_SET', 'REPLACE', 'REMOVE', 'ATTR_SET', 'VALUE_SET'):
            w.count('fault.rej.unplanned')
        elif ev['r'] == 'exc' and op['op'] in ('TO_STRING', 'WRITE'):
            w.count('fault.rej.incomplete_serialise')
        if op['op'] == 'TO_STRING' and ev['r'] == 'ok':
            w.count('reach.serialised_ok')
        if ev.get('stdout'):
            w.count('reach.intelligent_choice_ran')


# ---------------------------------------------------------------------------------- C10 (in-run part)
class C10Snapshot(Checker):
    """Immediately after each failing call the cheap observation (children in both views, attributes,
    value of every node of the document) equals the one taken immediately before it."""

    def before(self, w, op):
        self.snap = None
        if op['op'] in ('OBS', 'FAULT', 'NEW', 'DEEPCOPY', 'PARSE', 'FSPUT', 'FSSTATE'):
            return
        d = _doc_of(op)
        root = w.docs.get(d)
        if root is not None:
            self.snap = (root, w.cheap_tree(root))

    def after(self, w, op, ev):
        if self.snap is None or ev['r'] != 'exc':
            return
        if ev['t'] in ('SimHang', 'SimInterrupt'):
            return
        root, before = self.snap
        after = w.cheap_tree(root)
        w.count('c10.failed_calls_judged')
        if after != before:
            k = 0
            while k < len(before) and k < len(after) and before[k] == after[k]:
                k += 1
            w.violate('C10', 'state-changed-by-failed-call',
                      {'failed_op': op['op'], 'stage': ev.get('stage'), 'exc': ev['t'],
                       'before': before[k] if k < len(before) else None, 'after': after[k] if k < len(after) else None})


# ---------------------------------------------------------------------------------- C13 (in-run part)
class C13Others(Checker):
    """The cheap observation of every *other* document is unchanged across each step of an actor."""

    def before(self, w, op):
        self.snap = None
        if op['op'] in ('OBS', 'FAULT'):
            return
        d = _doc_of(op)
        self.snap = {k: w.cheap_tree(r, cap=25) for k, r in w.docs.items() if k != d and
                     not (op['op'] == 'DEEPCOPY' and k == op['p'][0])}

    def after(self, w, op, ev):
        if not self.snap:
            return
        for k, before in self.snap.items():
            r = w.docs.get(k)
            if r is None:
                continue
            if w.cheap_tree(r, cap=25) != before:
                w.violate('C13', 'other-instance-changed', {'op': op['op'], 'on': _doc_of(op), 'changed': k,
                                                            'elem': r.name})
                return


# ---------------------------------------------------------------------------------- C14 (in-run part)
class C14Copy(Checker):
    """At the copy: copy.to_string() equals original.to_string() (or both raise the same type) and the
    original is unchanged by the copy."""

    def before(self, w, op):
        self.pre = None
        if op['op'] == 'DEEPCOPY':
            try:
                node = w._detached(op['reuse'], op.get('reuse_doc')) if 'reuse' in op else w.node(op['p'])
            except Exception:
                node = None
            if node is not None:
                self.pre = (node, w.cheap_tree(node), infork(lambda: w._quiet(lambda: w.verdict(node.el))))

    def after(self, w, op, ev):
        if self.pre is None:
            return
        node, cheap0, ts0 = self.pre
        if ev['r'] == 'exc':
            w.violate('C14', 'copy-raised', {'elem': node.name, 'exc': ev['t']})
            return
        if ev['r'] != 'ok':
            return
        w.count('c14.copies_judged')
        cheap1 = w.cheap_tree(node)
        ts1 = infork(lambda: w._quiet(lambda: w.verdict(node.el)))
        if cheap1 != cheap0 or ts1 != ts0:
            w.violate('C14', 'original-changed-by-copy', {'elem': node.name, 'ts_before': _clip(ts0), 'ts_after': _clip(ts1)})
            return
        cp = w.docs[op['doc']]
        tsc = infork(lambda: w._quiet(lambda: w.verdict(cp.el)))
        if ts0[0] == 'text' and tsc[0] == 'text' and node.parent is not None:
            # a copy of a nested element is detached: indentation (which follows the tree level) aside
            same = [l.lstrip() for l in ts0[1].split('\n')] == [l.lstrip() for l in tsc[1].split('\n')]
        else:
            same = (tsc == ts0) if ts0[0] == 'text' else (tsc[0] == 'exc' and tsc[1] == ts0[1])
        if not same:
            w.violate('C14', 'copy-differs', {'elem': node.name, 'original': _clip(ts0), 'copy': _clip(tsc),
                                              'diff': _textdiff(ts0, tsc)})


def _clip(ts, n=300):
    if isinstance(ts, list) and len(ts) > 1 and isinstance(ts[1], str) and len(ts[1]) > n:
        return [ts[0], ts[1][:n] + '...']
    return ts


def _textdiff(a, b):
    if a[0] != 'text' or b[0] != 'text':
        return None
    la, lb = a[1].split('\n'), b[1].split('\n')
    for i, (x, y) in enumerate(zip(la, lb)):
        if x != y:
            return {'line': i, 'original': x.strip()[:160], 'copy': y.strip()[:160]}
    return {'lines': [len(la), len(lb)]}


# ---------------------------------------------------------------------------------- C16 (in-run part)
class C16Serialise(Checker):
    """(i) output is well-formed and a standard parser recovers exactly the shadow's strings and
    structure; (ii) two consecutive serialisations are identical; (iv) a subtree's own serialisation has
    the same infoset as that subtree inside its parent's."""

    def after(self, w, op, ev):
        if op['op'] == 'TO_STRING' and ev['r'] == 'exc' and ev['t'] == 'XSDAttributeRequiredException':
            # every required attribute of every checked element of the subtree holds an accepted value (the empty
            # string is a value): serialisation must not refuse for a missing attribute
            node = w.node(op['p'])
            if node is not None:
                missing = []
                for n in node.walk():
                    if n.xsd_check and n.sid not in _TAINT:
                        for a, d in spec.attributes_of_element(n.name).items():
                            if d['required'] and a not in n.attrs and not (a.startswith('xlink:') or a in ('xml:lang',)):
                                missing.append((n.name, a))
                if not missing and _library_tree_is_shadow(node):
                    empties = [(n.name, a) for n in node.walk() for a, v in n.attrs.items() if v == '' or v == 0]
                    w.violate('C16', 'accepted-value-not-serialised', {'elem': node.name, 'exc': ev['t'], 'falsy_values': empties[:4]})
            return
        if op['op'] != 'TO_STRING' or ev['r'] != 'ok':
            return
        node = w.node(op['p'])
        text = w.text
        try:
            et = ET.fromstring(text)
        except ET.ParseError as e:
            w.violate('C16', 'not-wellformed', {'elem': node.name, 'error': str(e)[:100]})
            return
        w.count('c16.outputs_judged')
        if op.get('twice'):
            ic = bool(op.get('ic'))
            r = w.call(lambda: node.el.to_string(intelligent_choice=True) if ic else node.el.to_string())
            if r[0] != 'ok' or r[1] != text:
                w.violate('C16', 'repeat-differs' + ('[ic]' if ic else ''), {'elem': node.name,
                          'second': 'exc:' + type(r[1]).__name__ if r[0] != 'ok' else _textdiff(['text', text], ['text', r[1]])})
                return
        bad = _recover(node, et)
        if bad:
            w.violate('C16', 'string-not-recovered', bad)
            return
        # subtree vs inside parent: serialise one checked child alone and compare infosets
        try:
            emitted = {id(x) for x in node.el.get_children()}
        except Exception:
            emitted = set()
        # only children the parent really serialises (a replaced-out child still sitting in the container is C06's business)
        kids = [c for c in node.children if c.xsd_check and id(c.el) in emitted]
        if kids and op.get('subtree') is not None and len(emitted) == len(node.children):
            c = kids[op['subtree'] % len(kids)]
            r = w.call(lambda: c.el.to_string())
            if r[0] == 'ok':
                try:
                    sub = ET.fromstring(r[1])
                except ET.ParseError:
                    w.violate('C16', 'not-wellformed', {'elem': c.name, 'subtree': True})
                    return
                inside = [k for k in et if k.tag == c.name]
                if not any(_infoset(k) == _infoset(sub) for k in inside):
                    w.violate('C16', 'subtree-differs', {'elem': c.name, 'parent': node.name})


def _library_tree_is_shadow(node):
    """True if the elements the library would serialise below `node` are exactly the shadow's nodes (no ghost child
    left by a failed add, no replaced-out child still in the container)."""
    st = [node]
    while st:
        n = st.pop()
        try:
            kids = list(n.el.get_children())
        except Exception:
            return False
        if sorted(map(id, kids)) != sorted(id(c.el) for c in n.children):
            return False
        st.extend(n.children)
    return True


def _infoset(e):
    return (e.tag, tuple(sorted(e.attrib.items())), (e.text or '').strip() if len(e) else (e.text or ''),
            tuple(_infoset(k) for k in e))


def _recover(node, et):
    """Strings and structure a standard parser recovers vs what the elements being serialised hold
    (public reads: name, attributes, value_, get_children()).  Walking the library's own tree rather
    than the shadow keeps matcher bookkeeping defects (C06) out of the escaping oracle; the shadow is
    used for the strings the harness itself supplied."""
    st = [(node.el, et, node)]
    while st:
        el, e, sh = st.pop()
        if e.tag != el.name:
            return {'elem': el.name, 'tag': e.tag}
        want = {k: str(v) for k, v in el.attributes.items()}
        got = dict(e.attrib)
        if want != got:
            return {'elem': el.name, 'want_attrs': want, 'got_attrs': got}
        kids = list(el.get_children())
        if len(kids) != len(e):
            return {'elem': el.name, 'want_children': [k.name for k in kids], 'got_children': [k.tag for k in e]}
        if sh is not None and sh.el is el and not sh.xsd_check and sh.sid not in _TAINT:
            # an unchecked element keeps whatever it was given, in insertion order: the shadow is authoritative
            if [c.name for c in sh.children] != [k.tag for k in e]:
                return {'elem': el.name, 'given_children': [c.name for c in sh.children], 'got_children': [k.tag for k in e]}
        if not kids:
            want_t = '' if el.value_ is None else str(el.value_)
            got_t = e.text or ''
            if want_t != got_t:
                return {'elem': el.name, 'want_text': want_t, 'got_text': got_t}
            if sh is not None and not sh.children and sh.el is el and not isinstance(sh.value, list):
                # what the harness supplied must be what the element holds
                sv = '' if sh.value is None else str(sh.value)
                if sv != got_t:
                    return {'elem': el.name, 'supplied_text': sv, 'got_text': got_t}
        byid = {id(c.el): c for c in sh.children} if sh is not None else {}
        for k, ke in zip(kids, e):
            st.append((k, ke, byid.get(id(k))))
    return None


# ---------------------------------------------------------------------------------- C11 (rebuild twin, in nested forks)
def shadow_spec(n):
    """childspec that rebuilds a shadow node (value, attributes as constructor keywords, children)."""
    return {'name': n.name, 'value': n.value, 'attrs': {spec.py_attr_name(k): v for k, v in n.attrs.items()},
            'xsd_check': n.xsd_check, 'kids': [shadow_spec(c) for c in n.children]}


class C11Rebuild(Checker):
    """After a successful removal on a checked element: it must be observationally equivalent to a fresh
    element of the same class to which clones of the remaining children are added in the same relative
    order (serialisation or missing-children verdict; acceptance of every further child)."""

    def after(self, w, op, ev):
        if ev['r'] != 'ok':
            return
        if op['op'] == 'REMOVE' and not op.get('foreign'):
            pass
        elif op['op'] == 'DOT_SET' and op['v']['kind'] == 'none':
            pass
        else:
            return
        node = w.node(op['p'])
        if node is None or not node.xsd_check or spec.model_for_element(node.name) is None:
            return
        m = spec.model_for_element(node.name)
        present = sorted({c.name for c in node.children})
        others = [a for a in m.alpha if a not in present]
        symbols = present + others[:max(0, 6 - len(present))]
        if op.get('accept'):
            symbols = sorted(set(symbols) | set(op['accept']))[:10]

        def observe_live():
            return w._quiet(lambda: [w.verdict(node.el), w._safe_req(node.el)])

        def observe_fresh():
            def f():
                cs = shadow_spec(node)
                kids = cs.pop('kids')
                try:
                    fresh = w.build(cs)
                except BaseException as e:
                    return ['construct-failed', type(e).__name__]
                # the very same child objects (this is a throw-away fork), so that the comparison is about
                # the parent alone and not about damage inside a nested child's own history
                for c in node.children:
                    try:
                        fresh.el.add_child(c.el)
                        fresh.children.append(c)
                    except BaseException as e:
                        return ['rebuild-rejected', c.name, type(e).__name__]
                acc = {}
                for s in symbols:
                    acc[s] = infork(lambda: w._try_add(fresh, s))
                return ['ok', w.verdict(fresh.el), w._safe_req(fresh.el), acc]
            return w._quiet(f)

        live = infork(observe_live)
        fresh = infork(observe_fresh)
        if not isinstance(fresh, list) or fresh[0] != 'ok':
            w.count('c11.rebuild_undefined')
            return
        w.count('c11.removals_judged')
        acc_live = {s: infork(lambda: w._quiet(lambda: w._try_add(node, s))) for s in symbols}
        ts_l, req_l = live
        _ok, ts_f, req_f, acc_f = fresh
        base = {'elem': node.name, 'remaining': [c.name for c in node.children]}
        rl, rf = set(req_l or []), set(req_f or [])
        if rl != rf:
            if rl > rf:
                clause = 'spurious-required'
            elif rl < rf:
                clause = 'missing-required'
            else:
                clause = 'required-differs'
            base.update({'after_removal': sorted(rl), 'fresh': sorted(rf)})
            w.violate('C11', clause, base)
            return
        less = sorted(s for s in symbols if acc_f[s] == 'ok' and acc_live[s] != 'ok')
        more = sorted(s for s in symbols if acc_f[s] != 'ok' and acc_live[s] == 'ok')
        if less:
            base.update({'rejected_after_removal': less, 'how': acc_live[less[0]]})
            w.violate('C11', 'accepts-less', base)
            return
        if more:
            base.update({'accepted_only_after_removal': more, 'fresh_says': acc_f[more[0]]})
            w.violate('C11', 'accepts-more', base)
            return
        if ts_l[0] != ts_f[0] or (ts_l[0] == 'exc' and ts_l[1] != ts_f[1]):
            base.update({'after_removal': _clip(ts_l, 120), 'fresh': _clip(ts_f, 120)})
            w.violate('C11', 'verdict-differs', base)
            return
        if ts_l[0] == 'text' and ts_l[1] != ts_f[1]:
            base.update({'diff': _textdiff(ts_l, ts_f)})
            w.violate('C11', 'order-differs', base)


# ---------------------------------------------------------------------------------- C04
XML_NS = '{http://www.w3.org/XML/1998/namespace}'
XLINK_NS = '{http://www.w3.org/1999/xlink}'


def expanded(schema_name):
    if schema_name.startswith('xml:'):
        return XML_NS + schema_name[4:]
    if schema_name.startswith('xlink:'):
        return XLINK_NS + schema_name[6:]
    return schema_name


class C04Attributes(Checker):
    """Reference attribute store: assignment succeeds iff declared and certainly valid, fails iff
    undeclared or certainly invalid; nothing stored after a failure; to_string refuses when a required
    attribute is absent, otherwise emits exactly the store under schema names; None removes."""

    def before(self, w, op):
        self.pre = None
        if op['op'] == 'ATTR_SET':
            node = w.node(op['p'])
            if node is not None:
                try:
                    self.pre = dict(node.el.attributes)
                except Exception:
                    self.pre = None

    def _status(self, elem, pyname, value):
        """'valid' | 'invalid' | 'undeclared' | 'uncertain'"""
        sn = schema_attr_name(elem, pyname)
        if sn is None:
            return 'undeclared', None
        d = spec.attributes_of_element(elem)[sn]
        good, bad = spec.exemplars(d['type'])
        if d.get('fixed') is not None:
            return ('valid' if value == d['fixed'] else 'uncertain'), sn
        if any(value == g and type(value) is type(g) for g in good):
            return 'valid', sn
        if any(value == b and type(value) is type(b) for b in bad):
            return 'invalid', sn
        return 'uncertain', sn

    def after(self, w, op, ev):
        k = op['op']
        if k == 'ATTR_SET':
            node = w.node(op['p'])
            if node is None or ev['r'] == 'skip':
                return
            val = op['value']
            if val is None:
                if ev['r'] == 'ok':
                    sn = schema_attr_name(node.name, op['name'])
                    keys = {op['name'].replace('_', '-')} | ({sn} if sn else set())
                    if any(x in node.el.attributes for x in keys):
                        w.violate('C04', 'none-did-not-remove', {'elem': node.name, 'attr': op['name']})
                return
            st, sn = self._status(node.name, op['name'], val)
            w.count('c04.sets_judged.' + st)
            if sn:
                w.cover.add('pair:%s@%s' % (node.name, sn))
            if ev['r'] == 'ok':
                if st == 'undeclared':
                    w.violate('C04', 'undeclared-accepted', {'elem': node.name, 'attr': op['name']})
                elif st == 'invalid':
                    w.violate('C04', 'invalid-accepted', {'elem': node.name, 'attr': sn, 'value': val})
            else:
                if st == 'valid':
                    w.violate('C04', 'declared-valid-rejected', {'elem': node.name, 'attr': sn, 'value': val, 'exc': ev['t']})
                if self.pre is not None:
                    try:
                        now = dict(node.el.attributes)
                    except Exception:
                        now = None
                    if now != self.pre:
                        w.violate('C04', 'stored-after-failure', {'elem': node.name, 'attr': op['name']})
        elif k == 'NEW' and op.get('c04'):
            # constructor keyword surface
            cs = op['c']
            for py, val in (cs.get('attrs') or {}).items():
                st, sn = self._status(cs['name'], py, val)
                w.count('c04.ctor_judged.' + st)
                if ev['r'] == 'ok' and st == 'undeclared':
                    w.violate('C04', 'undeclared-accepted', {'elem': cs['name'], 'attr': py, 'via': 'ctor'})
                elif ev['r'] == 'ok' and st == 'invalid':
                    w.violate('C04', 'invalid-accepted', {'elem': cs['name'], 'attr': sn, 'value': val, 'via': 'ctor'})
                elif ev['r'] == 'exc' and len(cs['attrs']) == 1 and st == 'valid':
                    w.violate('C04', 'declared-valid-rejected', {'elem': cs['name'], 'attr': sn, 'value': val,
                                                                 'exc': ev['t'], 'via': 'ctor'})
        elif k == 'PARSE' and op.get('c04'):
            t = op['c04']
            st, sn = self._status(t['elem'], spec.py_attr_name(t['attr']) if t['declared'] else t['attr'], t['value'])
            if not t['declared']:
                st = 'undeclared'
            w.count('c04.parser_judged.' + st)
            if sn:
                w.cover.add('pair:%s@%s' % (t['elem'], sn))
            if ev['r'] == 'ok':
                if st == 'undeclared':
                    w.violate('C04', 'undeclared-accepted', {'elem': t['elem'], 'attr': t['attr'], 'via': 'parser'})
                elif st == 'invalid':
                    w.violate('C04', 'invalid-accepted', {'elem': t['elem'], 'attr': t['attr'], 'value': t['value'], 'via': 'parser'})
            elif ev['r'] == 'exc' and st == 'valid':
                w.violate('C04', 'declared-valid-rejected', {'elem': t['elem'], 'attr': t['attr'], 'value': t['value'],
                                                             'exc': ev['t'], 'via': 'parser'})
        elif k == 'TO_STRING':
            node = w.node(op['p'])
            if node is None or not node.xsd_check:
                return
            table = spec.attributes_of_element(node.name)
            missing = [a for a, d in table.items() if d['required'] and a not in node.attrs]
            if ev['r'] == 'ok':
                if missing:
                    w.violate('C04', 'required-not-enforced', {'elem': node.name, 'missing': missing})
                    return
                et = parse_children(w.text)
                if et is None:
                    return
                want = {expanded(a): str(v) for a, v in node.attrs.items()}
                got = dict(et.attrib)
                w.count('c04.outputs_judged')
                if want != got:
                    if set(want) != set(got) and sorted(x.split('}')[-1].split(':')[-1] for x in want) == \
                            sorted(x.split('}')[-1] for x in got) and len(want) == len(got):
                        w.violate('C04', 'serialised-name-differs', {'elem': node.name, 'want': sorted(want), 'got': sorted(got)})
                    else:
                        w.violate('C04', 'serialised-set-differs', {'elem': node.name, 'want': want, 'got': got})
            elif ev['r'] == 'exc' and ev['t'] == 'XSDAttributeRequiredException' and not missing:
                # raised for this element although nothing is missing here (children are opaque)
                deeper = any(c.xsd_check for c in node.walk() if c is not node)
                if not deeper:
                    w.violate('C04', 'required-spurious', {'elem': node.name})


# ---------------------------------------------------------------------------------- C18
class C18Unchecked(Checker):
    """Operations on an unchecked element never raise for structural reasons; its children serialise in
    insertion order; a checked element nested under it still validates what is added to it and still
    refuses its own to_string() while incomplete."""

    def after(self, w, op, ev):
        k = op['op']
        if k == 'TO_STRING' and ev['r'] == 'ok' and 'p' in op:
            node = w.node(op['p'])
            if node is not None and node.xsd_check and any(not n.xsd_check for n in node.walk()):
                et = parse_children(w.text)
                if et is not None:
                    w.count('c18.mixed_outputs_judged')
                    bad = check_tree_valid(node, et, top=True)
                    tainted_names = {n.name for n in node.walk() if w.c18_tainted(n)}
                    if bad and bad[1].get('elem') != node.name and bad[1].get('elem') not in tainted_names:
                        w.violate('C18', 'nested-checked-serialised-incomplete', dict(bad[1], serialised_from=node.name))
        if k == 'WRITE' and ev['r'] != 'skip':
            root = w.docs.get(op['doc'])
            if root is not None and not root.xsd_check and ev['r'] == 'exc' and not isinstance(w.last_exc, OSError):
                # an unchecked root runs no final checks: to_string() cannot fail, so neither may write()
                w.violate('C18', 'unchecked-raised', {'elem': root.name, 'op': 'WRITE', 'exc': ev['t'], 'child': None})
            return
        if k == 'DEEPCOPY' and ev['r'] == 'exc':
            node = w.node(op['p'])
            if node is not None and all(not n.xsd_check for n in node.walk()):
                w.violate('C18', 'unchecked-raised', {'elem': node.name, 'op': 'DEEPCOPY', 'exc': ev['t'], 'child': None})
            return
        if k in ('ADD', 'REMOVE', 'REPLACE', 'TO_STRING') and 'p' in op:
            node = w.node(op['p'])
            if node is None or ev['r'] == 'skip':
                return
            if not node.xsd_check:
                if ev['r'] == 'exc' and ev.get('stage') in ('add', 'remove', 'replace', 'to_string') and not op.get('foreign'):
                    if k == 'TO_STRING':
                        # may legitimately raise when a *checked* descendant is incomplete? No: an unchecked
                        # root runs no final checks at all.  Value/required-attribute errors cannot occur
                        # either because nothing is checked.
                        pass
                    w.violate('C18', 'unchecked-raised', {'elem': node.name, 'op': k, 'exc': ev['t'],
                                                          'child': (op.get('c') or {}).get('name')})
                    return
                if k in ('ADD', 'REPLACE') and ev['r'] == 'ok' and node.children:
                    c = w.cheap(node)
                    if not all(x is True for x in c['par']) or c['un'] != list(range(len(node.children))):
                        w.violate('C18', 'unchecked-bookkeeping-wrong', {'elem': node.name, 'op': k, 'par': c['par'], 'un': c['un']})
                        return
                if k == 'TO_STRING' and ev['r'] == 'ok':
                    et = parse_children(w.text)
                    if et is not None:
                        w.count('c18.unchecked_outputs_judged')
                        got = [x.tag for x in et]
                        want = [c.name for c in node.children]
                        if got != want:
                            w.violate('C18', 'unchecked-reordered', {'elem': node.name, 'want': want, 'got': got})
            else:
                # checked node somewhere below an unchecked ancestor
                if node.fully_checked_path():
                    return
                if k in ('REMOVE', 'REPLACE') and ev['r'] == 'ok':
                    # from here on the matcher's removal / replacement defects (C07, C11, C01 findings) would be
                    # blamed on nesting: this node is no longer judged by C18
                    w._tainted = getattr(w, '_tainted', set())
                    w._tainted.add(node.sid)
                    return
                if w.c18_tainted(node):
                    return
                m = spec.model_for_element(node.name)
                if k == 'ADD' and op.get('fwd') is None and ev['r'] == 'ok' and m is not None:
                    w.count('c18.nested_checked_adds_judged')
                    if not m.extendable([c.name for c in node.children]):
                        w.violate('C18', 'nested-checked-not-enforced', {'elem': node.name,
                                                                         'children': [c.name for c in node.children]})
                if k == 'TO_STRING' and ev['r'] == 'ok' and m is not None:
                    et = parse_children(w.text)
                    if et is not None and not m.accepts([x.tag for x in et]):
                        if not w.c18_tainted(node):
                            w.violate('C18', 'nested-checked-serialised-incomplete', {'elem': node.name, 'word': [x.tag for x in et]})
        if op.get('c18twin') and ev['r'] == 'ok' and k == 'TO_STRING':
            # byte-identity with the checked twin: program serialises the unchecked doc then the checked
            # twin (same children supplied in a schema-valid order)
            tag = op['c18twin']
            if tag['role'] == 'unchecked':
                w.c18_text = w.text
            else:
                w.count('c18.twins_judged')
                if getattr(w, 'c18_text', None) is not None and w.c18_text != w.text:
                    w.violate('C18', 'twin-bytes-differ', {'elem': w.node(op['p']).name,
                                                           'diff': _textdiff(['text', w.c18_text], ['text', w.text])})
                w.c18_text = None


# ---------------------------------------------------------------------------------- C15
def _shape(w, node):
    """Public-side structural summary used to compare the two surfaces."""
    el = node.el
    try:
        kids = el.get_children(ordered=True)
    except Exception as e:
        return ['!' + type(e).__name__]
    out = []
    for k in kids:
        try:
            out.append([k.name, k.value_ if isinstance(k.value_, (int, float, str, type(None))) else repr(k.value_),
                        sorted((a, str(v)) for a, v in k.attributes.items()), len(k.get_children(ordered=False))])
        except Exception as e:
            out.append(['!' + type(e).__name__])
    try:
        at = sorted((a, str(v)) for a, v in el.attributes.items())
    except Exception as e:
        at = ['!' + type(e).__name__]
    return [at, out]


class C15Surfaces(Checker):
    """One abstract program rendered on the explicit API (doc A) and on the shortcut syntax (doc B):
    each step is rejected on one surface iff on the other, and afterwards both elements look the same;
    dot reads return the child serialisation shows / the stored attribute, or None for what the schema
    allows but is not set."""

    def after(self, w, op, ev):
        if op['op'] == 'PAIR' and ev['r'] == 'ok':
            self._judge(w, op, ev['v'])
        if op['op'] == 'DOT_GET' and ev['r'] != 'skip':
            node = w.node(op['p'])
            m = spec.model_for_element(node.name)
            if m is None or op['name'] not in m.alpha:
                return
            w.count('c15.dot_reads_judged')
            same = [i for i, c in enumerate(node.children) if c.name == op['name']]
            if ev['r'] == 'exc':
                w.violate('C15', 'dot-read-raises', {'elem': node.name, 'name': op['name'], 'exc': ev['t'], 'set': bool(same)})
            elif not same and ev.get('v') is not None:
                w.violate('C15', 'dot-read-wrong-child', {'elem': node.name, 'name': op['name'], 'got': ev.get('v'), 'want': None})
            elif same and (not isinstance(ev.get('v'), list) or ev['v'][0] != 'child' or ev['v'][1] not in same):
                w.violate('C15', 'dot-read-wrong-child', {'elem': node.name, 'name': op['name'], 'got': ev.get('v'), 'want': same})
            elif same and op.get('ryw') is not None and ev['v'][2] != op['ryw']:
                # read-your-write through the shortcut surface: e.xml_x = v; e.xml_x must be the child that now holds v
                w.violate('C15', 'dot-read-wrong-child', {'elem': node.name, 'name': op['name'], 'assigned': op['ryw'],
                                                          'read_back': ev['v'][2], 'same_named_children': len(same)})
        if op['op'] == 'ATTR_GET' and ev['r'] != 'skip':
            node = w.node(op['p'])
            sn = schema_attr_name(node.name, op['name'])
            if sn is None:
                return
            w.count('c15.attr_reads_judged')
            want = node.attrs.get(sn)
            if ev['r'] == 'exc':
                w.violate('C15', 'attr-read-wrong', {'elem': node.name, 'attr': sn, 'exc': ev['t']})
            elif ev.get('v') != want:
                w.violate('C15', 'attr-read-wrong', {'elem': node.name, 'attr': sn, 'got': ev.get('v'), 'want': want})

    def _judge(self, w, op, v):
        ea, eb = v['explicit'], v['shortcut']
        if any(r[0] == 'skip' for r in ea + eb):
            return
        w.count('c15.pairs_judged')
        ra = any(r[0] == 'exc' for r in ea)
        rb = any(r[0] == 'exc' for r in eb)
        step = op.get('step')
        if ra != rb:
            w.violate('C15', 'surfaces-differ-rejection', {'step': step, 'explicit': [r[1] for r in ea if r[0] == 'exc'] or 'ok',
                                                           'shortcut': [r[1] for r in eb if r[0] == 'exc'] or 'ok'})
            return
        if step == 'serialise':
            if not ra and ea[-1][1] != eb[-1][1]:
                w.violate('C15', 'surfaces-differ-output', {'step': step})
            return
        na, nb = w.docs.get('dA'), w.docs.get('dB')
        if na is None or nb is None:
            return
        sa, sb = _shape(w, na), _shape(w, nb)
        if sa != sb:
            w.violate('C15', 'surfaces-differ-output', {'step': step, 'explicit': sa, 'shortcut': sb})


# ---------------------------------------------------------------------------------- C17
DECL = '<?xml version="1.0" encoding="UTF-8" standalone="no"?>\n'


class C17Write(Checker):
    """write() is all-or-nothing: if it raises before the document text exists the destination keeps
    its prior state; if it returns, the file holds the declaration followed by exactly to_string(),
    encoded in UTF-8 - whatever the default text encoding."""

    def before(self, w, op):
        self.pre = None
        if op['op'] != 'WRITE':
            return
        root = w.docs.get(op['doc'])
        if root is None:
            return
        path = w.fs.mount + op['path']
        ic = bool(op.get('ic'))
        ts = infork(lambda: w._quiet(lambda: w.verdict(root.el, ic)))
        self.pre = (path, w.fs.state(path), ts, w.fs.default_encoding, w.async_exc_at)
        w.async_in_to_string = None

    def after(self, w, op, ev):
        if op['op'] == 'PARSE' and op.get('c17ref') and ev['r'] != 'skip':
            w.c17_ref = (ev['r'], ev.get('t'))
            return
        if op['op'] == 'PARSE' and op.get('c17cmp') and ev['r'] != 'skip':
            # parsing must not depend on the default text encoding
            ref = w.docs.get(op['c17cmp'])
            got = w.docs.get(op['doc'])
            w.count('c17.parses_compared')
            r0 = getattr(w, 'c17_ref', None)
            if r0 is not None and r0 != (ev['r'], ev.get('t')):
                w.violate('C17', 'locale-dependent-outcome', {'what': 'parse_musicxml', 'encoding': w.fs.default_encoding,
                                                               'under_utf8': list(r0), 'under_this_encoding': [ev['r'], ev.get('t')]})
                return
            if ref is None or got is None:
                return      # both failed alike
            a = infork(lambda: w._quiet(lambda: w.verdict(ref.el)))
            b = infork(lambda: w._quiet(lambda: w.verdict(got.el)))
            if a != b:
                w.violate('C17', 'locale-dependent-outcome', {'what': 'parse_musicxml result', 'encoding': w.fs.default_encoding,
                                                               'utf8': _clip(a, 120), 'other': _clip(b, 120)})
            return
        if self.pre is None or ev['r'] == 'skip':
            return
        path, prior, ts, enc, async_k = self.pre
        now = w.fs.state(path)
        w.count('c17.writes_judged')
        fired = list(w.fs.fired)
        if ev['r'] == 'ok':
            if ts[0] != 'text':
                w.violate('C17', 'wrote-although-to_string-fails', {'to_string': ts[:2], 'encoding': enc})
                return
            want = (DECL + ts[1]).encode('utf-8')
            if now[0] != 'file':
                w.violate('C17', 'content-differs', {'state': now[0], 'encoding': enc})
                return
            got = bytes.fromhex(now[1])
            if got == want:
                # ... and it is what to_string() says now, after the write, too
                root = w.docs.get(op['doc'])
                ts2 = infork(lambda: w._quiet(lambda: w.verdict(root.el, bool(op.get('ic')))))
                if ts2[0] == 'text' and ts2[1] != ts[1]:
                    w.violate('C17', 'content-differs', {'encoding': enc, 'what': 'the file holds a serialisation that to_string() no longer returns after the write',
                                                          'diff': _textdiff(ts, ts2)})
                return
            if got != want:
                try:
                    same_in_locale = got.decode(enc) == DECL + ts[1]
                except Exception:
                    same_in_locale = False
                if same_in_locale:
                    w.violate('C17', 'not-utf8', {'encoding': enc})
                else:
                    w.violate('C17', 'content-differs', {'encoding': enc, 'want_len': len(want), 'got_len': len(got),
                                                          'at': _first_byte_diff(want, got)})
            return
        # write raised
        t = ev['t']
        e = w.last_exc
        if t == 'SimInterrupt':
            if w.async_in_to_string:
                w.count('c17.async_inside_to_string')
                if now != prior:
                    w.violate('C17', 'destination-changed-on-failed-write', {'cause': 'async exception inside to_string()',
                                                                             'prior': prior[0], 'now': _st(now)})
            return
        if isinstance(e, OSError) and fired:
            return      # injected I/O error after/around the text: outside the property; it propagated
        if ts[0] != 'text':
            # validation / serialisation fails: the text never existed
            if now != prior:
                w.violate('C17', 'destination-changed-on-failed-write', {'cause': ts[1] if len(ts) > 1 else 'to_string failed',
                                                                         'prior': prior[0], 'now': _st(now), 'encoding': enc})
            return
        if isinstance(e, UnicodeError) or enc != 'utf-8':
            w.violate('C17', 'locale-dependent-outcome', {'encoding': enc, 'exc': t, 'prior': prior[0], 'now': _st(now)})
            return
        if isinstance(e, OSError):
            return      # e.g. read-only destination, directory: a genuine refusal of the OS
        w.violate('C17', 'write-failed-on-valid-document', {'exc': t})


def _st(state):
    if state[0] == 'file':
        return ['file', len(state[1]) // 2]
    return state


def _first_byte_diff(a, b):
    for i, (x, y) in enumerate(zip(a, b)):
        if x != y:
            return i
    return min(len(a), len(b))


# ---------------------------------------------------------------------------------- C09
from decimal import Decimal, InvalidOperation


def _num_eq(a, b):
    if a == b:
        return True
    try:
        return Decimal(a.strip()) == Decimal(b.strip())
    except (InvalidOperation, ValueError):
        return False


def infoset_loss(inp, out, path=''):
    """First element / attribute / text / tail of the input infoset that the output lacks or alters.
    Whitespace around text is insignificant; numbers are compared by value."""
    here = path + '/' + inp.tag
    if inp.tag != out.tag:
        return ('element-dropped', {'at': here, 'output_has': out.tag})
    for k, v in inp.attrib.items():
        if k not in out.attrib:
            return ('attribute-dropped', {'at': here, 'attribute': k})
        if not _num_eq(v, out.attrib[k]):
            return ('value-altered', {'at': here, 'attribute': k, 'input': v[:60], 'output': out.attrib[k][:60]})
    ti, to = (inp.text or '').strip(), (out.text or '').strip()
    if ti and not to:
        return ('text-dropped', {'at': here, 'text': ti[:60]})
    if ti and not _num_eq(ti, to):
        return ('value-altered', {'at': here, 'input': ti[:60], 'output': to[:60]})
    ki, ko = list(inp), list(out)
    if [k.tag for k in ki] != [k.tag for k in ko]:
        si, so = sorted(k.tag for k in ki), sorted(k.tag for k in ko)
        if si == so:
            return ('order-altered', {'at': here, 'input': [k.tag for k in ki][:12], 'output': [k.tag for k in ko][:12]})
        missing = [t for t in si if si.count(t) > so.count(t)]
        if missing:
            return ('element-dropped', {'at': here, 'element': missing[0]})
        return ('order-altered', {'at': here, 'input': [k.tag for k in ki][:12], 'output': [k.tag for k in ko][:12]})
    for a, b in zip(ki, ko):
        tl = (a.tail or '').strip()
        if tl and tl != (b.tail or '').strip():
            return ('tail-dropped', {'at': here + '/' + a.tag, 'tail': tl[:60]})
        r = infoset_loss(a, b, here)
        if r:
            return r
    return None


class C09Parse(Checker):
    """If the stored bytes are not well-formed the parser must raise; otherwise either it raises or the
    infoset of parse(...).to_string() contains every element, attribute and text of the input; in the
    fault-free configuration with a document the model vouches for, it must not raise at all."""

    def after(self, w, op, ev):
        if op['op'] != 'PARSE' or ev['r'] == 'skip':
            return
        data = w.fs.files.get(w.fs.mount + op['path'])
        if data is None:
            return
        try:
            inp = ET.fromstring(data)
        except ET.ParseError:
            inp = None
        except Exception:
            inp = None
        valid_clean = bool(op.get('valid')) and not op.get('corrupted')
        w.count('c09.parses_judged')
        if inp is None:
            w.count('c09.input_not_wellformed')
            if ev['r'] == 'ok':
                w.violate('C09', 'not-wellformed-accepted', {})
            return
        if op.get('corrupted'):
            w.count('c09.corrupted_still_wellformed')
        if ev['r'] == 'exc':
            if valid_clean:
                w.violate('C09', 'valid-file-rejected', {'exc': ev['t'], 'writer': op.get('writer'), 'why': _why(w.last_exc)})
            else:
                w.count('c09.parser_raised_on_damaged_input')
            return
        root = w.docs.get(op['doc'])
        ts = infork(lambda: w._quiet(lambda: w.verdict(root.el)))
        if ts[0] != 'text':
            if valid_clean:
                w.violate('C09', 'valid-file-rejected', {'exc': ts[1], 'stage': 'to_string of the parsed tree', 'writer': op.get('writer'),
                                                         'required': ts[2] if len(ts) > 2 else None})
            return
        try:
            out = ET.fromstring(ts[1])
        except ET.ParseError:
            return      # C16's business
        r = infoset_loss(inp, out)
        w.count('c09.roundtrips_compared')
        if r:
            d = dict(r[1])
            d['writer'] = op.get('writer')
            d['corrupted'] = bool(op.get('corrupted'))
            w.violate('C09', r[0], d)


def _why(e):
    s = scrub(str(e))[:160] if e is not None else None
    return s

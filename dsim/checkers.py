"""In-run oracles: invariants evaluated while a run proceeds (after every operation).
Each judges public behaviour only, against the shadow and the reference model."""
import xml.etree.ElementTree as ET

from . import spec
from .world import Checker, schema_attr_name, infork, default_childspec

MUTATING = ('ADD', 'REMOVE', 'REPLACE', 'DOT_SET', 'NEW', 'DEEPCOPY', 'TO_STRING', 'CHECK', 'PARSE')


def _doc_of(op):
    if 'p' in op:
        return op['p'][0]
    return op.get('doc')


def parse_children(text):
    """xml text -> ET root (or None)"""
    try:
        return ET.fromstring(text)
    except ET.ParseError:
        return None


# ---------------------------------------------------------------------------------- C06
class C06Conservation(Checker):
    """After every step: ordered view is a permutation (by identity) of the insertion view, the
    insertion view equals the shadow list, parents are right, removed children have no parent;
    when serialisation succeeds the output has exactly one element per shadow child."""

    def after(self, w, op, ev):
        if op['op'] not in MUTATING or ev['r'] == 'skip':
            return
        d = _doc_of(op)
        root = w.docs.get(d)
        if root is None:
            return
        seen = 0
        for n in root.walk():
            seen += 1
            if seen > 60:
                break
            if not n.children and not n.xsd_check:
                continue
            c = w.cheap(n)
            want = list(range(len(n.children)))
            if c['un'] != want:
                w.violate('C06', 'insertion-view-differs', {'elem': n.name, 'got': c['un'], 'want': want})
                return
            if n.xsd_check:
                if sorted(map(str, c['od'])) != sorted(map(str, want)):
                    extra = [x for x in c['od'] if c['od'].count(x) > 1 or x not in want]
                    clause = 'ordered-view-extra' if (len(c['od']) > len(want) or extra) else 'ordered-view-lost'
                    w.violate('C06', clause, {'elem': n.name, 'ordered': c['od'], 'insertion': c['un'],
                                              'names': [k.name for k in n.children]})
                    return
            if not all(x is True for x in c['par']):
                w.violate('C06', 'parent-link-wrong', {'elem': n.name, 'par': c['par']})
                return
        for r in w.removed[-6:]:
            try:
                p = r.el.get_parent()
            except Exception as e:
                p = e
            if p is not None:
                w.violate('C06', 'removed-still-parented', {'elem': r.name})
                return
        if op['op'] == 'TO_STRING' and ev['r'] == 'ok':
            node = w.node(op['p'])
            et = parse_children(w.text)
            if et is None:
                return   # C16's business
            bad = _compare_counts(node, et)
            if bad:
                w.violate('C06', 'output-count-differs', bad)


def _compare_counts(node, et):
    """Each shadow child appears exactly once: compare multisets of child names at every level."""
    st = [(node, et)]
    while st:
        n, e = st.pop()
        want = sorted(c.name for c in n.children)
        got = sorted(k.tag for k in e)
        if want != got:
            return {'elem': n.name, 'shadow': want, 'output': got}
        # pair children by name and per-name order of appearance in the shadow's schema order is
        # unknown; pair k-th same-named output element with *some* same-named shadow child having the
        # same number of children (structure check only one level deeper by multiset)
        byname = {}
        for c in n.children:
            byname.setdefault(c.name, []).append(c)
        for k in e:
            cands = byname.get(k.tag, [])
            if len(cands) == 1:
                st.append((cands[0], k))
    return None


# ---------------------------------------------------------------------------------- C01
class C01ValidOutput(Checker):
    """Whenever TO_STRING / WRITE returns normally: for every element whose shadow is checked along
    the whole path from the serialised root, its child-name sequence is a word of its content model."""

    def after(self, w, op, ev):
        if op['op'] != 'TO_STRING' or ev['r'] != 'ok':
            return
        node = w.node(op['p'])
        if node is None or not node.xsd_check:
            return
        et = parse_children(w.text)
        if et is None:
            return
        w.count('c01.outputs_judged')
        bad = check_tree_valid(node, et, top=True)
        if bad:
            w.violate('C01', bad[0], bad[1])


def check_tree_valid(node, et, top=False):
    """Walk shadow and output together; shadow tells which elements are checked."""
    st = [(node, et, True)]
    while st:
        n, e, checked_path = st.pop()
        checked_here = checked_path and n.xsd_check
        names = [k.tag for k in e]
        if checked_here:
            m = spec.model_for_element(n.name)
            if m is not None:
                if not m.accepts(names):
                    alpha = set(m.alpha)
                    if any(x not in alpha for x in names):
                        return ('wrong-child-emitted', {'elem': n.name, 'word': names})
                    if m.is_prefix(names) or m.arrangeable(names):
                        # a prefix of a word / a rearrangement is a word: something required is missing or order wrong
                        clause = 'missing-required-emitted' if m.is_prefix(names) else 'invalid-sequence'
                        return (clause, {'elem': n.name, 'word': names})
                    return ('invalid-sequence', {'elem': n.name, 'word': names})
            elif names:
                return ('wrong-child-emitted', {'elem': n.name, 'word': names})
        # descend: pair output children with shadow children; identity is not visible in the text, so
        # pair per name in order of the shadow's same-name insertion order (C12 says same-named keep
        # insertion order); only used to know whether a child is checked
        byname = {}
        for c in n.children:
            byname.setdefault(c.name, []).append(c)
        used = {}
        for k in e:
            lst = byname.get(k.tag)
            if not lst:
                continue
            i = used.get(k.tag, 0)
            used[k.tag] = i + 1
            if i < len(lst):
                # if same-named children differ in checkedness we cannot know which is which: be
                # conservative and treat as unchecked unless all same-named are checked
                all_checked = all(x.xsd_check for x in lst)
                if all_checked:
                    st.append((lst[i], k, checked_here))
    return None


# ---------------------------------------------------------------------------------- C07
class C07NoDeadEnd(Checker):
    """After each accepted plain addition (ADD without forward, DOT_SET that added) to a checked
    element: the multiset of children must be extendable to a word of the content model."""

    def after(self, w, op, ev):
        if ev['r'] != 'ok':
            return
        if op['op'] == 'ADD' and op.get('fwd') is None:
            node = w.node(op['p'])
        elif op['op'] == 'DOT_SET' and op['v']['kind'] in ('value', 'element'):
            node = w.node(op['p'])
        else:
            return
        if node is None or not node.xsd_check:
            return
        m = spec.model_for_element(node.name)
        if m is None:
            return
        ms = [c.name for c in node.children]
        w.count('c07.accepted_adds_judged')
        if not m.extendable(ms):
            w.violate('C07', 'dead-end-accepted', {'elem': node.name, 'children': ms})


# ---------------------------------------------------------------------------------- C12 (b)
class C12Compatible(Checker):
    """A child is never rejected while it, together with the children already present, can still be
    arranged into (part of) a valid sequence."""

    def before(self, w, op):
        self.pre = None
        if op['op'] == 'ADD' and op.get('fwd') is None:
            node = w.node(op['p'])
            if node is not None and node.xsd_check:
                self.pre = [c.name for c in node.children]

    def after(self, w, op, ev):
        if self.pre is None or ev['r'] != 'exc' or ev.get('stage') != 'add':
            return
        node = w.node(op['p'])
        m = spec.model_for_element(node.name)
        if m is None:
            return
        w.count('c12.rejections_judged')
        if m.extendable(self.pre + [op['c']['name']]):
            w.violate('C12', 'compatible-child-rejected:' + ev['t'],
                      {'elem': node.name, 'children': self.pre, 'offered': op['c']['name']})


class C12Unique(Checker):
    """(a) unique-arrangement words fed in a permutation: every add accepted and the ordered view is
    that arrangement, same-named children in the order they were added.  The program marks its ops
    with 'c12': {'arr': [...]} on the last add."""

    def after(self, w, op, ev):
        tag = op.get('c12')
        if not tag:
            return
        node = w.node(op['p'])
        if node is None:
            return
        if ev['r'] == 'exc' and ev.get('stage') == 'add':
            w.violate('C12', 'unique-arrangement-rejected', {'elem': node.name, 'children': [c.name for c in node.children],
                                                             'offered': op['c']['name'], 'exc': ev['t']})
            return
        if ev['r'] != 'ok' or not tag.get('last'):
            return
        arr = tag['arr']
        if sorted(arr) != sorted(c.name for c in node.children):
            return   # an earlier add failed; already reported
        c = w.cheap(node)
        od = c['od']
        if any(not isinstance(i, int) for i in od) or len(od) != len(node.children):
            return   # C06's business
        names = [node.children[i].name for i in od]
        if names != list(arr):
            w.violate('C12', 'unique-arrangement-misordered', {'elem': node.name, 'got': names, 'want': list(arr)})
            return
        # same-named children in insertion order
        last = {}
        for i in od:
            nm = node.children[i].name
            if nm in last and last[nm] > i:
                w.violate('C12', 'same-name-order-changed', {'elem': node.name, 'ordered_indices': od})
                return
            last[nm] = i


# ---------------------------------------------------------------------------------- C19
class C19Documented(Checker):
    """Every exception escaping a public call is one of the documented rejection types (classified
    behaviourally, never by message); nothing is written to stdout/stderr; no call exceeds the
    function-entry budget."""

    PUBLIC = {'construct': 'constructor', 'add': 'add_child', 'remove': 'remove', 'replace': 'replace_child',
              'dot_set': 'dot assignment', 'dot_get': 'dot read', 'attr_set': 'attribute assignment',
              'attr_get': 'attribute read', 'value_set': 'value assignment', 'to_string': 'to_string',
              'check': 'final check', 'read': 'read', 'deepcopy': 'deepcopy', 'write': 'write', 'parse': 'parse_musicxml'}

    def after(self, w, op, ev):
        if ev.get('stdout'):
            w.violate('C19', 'stdout in ' + self.opname(op, ev), {'bytes': ev['stdout'], 'text': w.cap[0][:120]})
        if ev.get('stderr'):
            w.violate('C19', 'stderr in ' + self.opname(op, ev), {'bytes': ev['stderr'], 'text': w.cap[1][:120]})
        if ev['r'] != 'exc':
            return
        e = w.last_exc
        t = ev['t']
        if t == 'SimHang':
            w.violate('C19', 'hang in ' + self.opname(op, ev), None)
            return
        if t == 'SimInterrupt':
            return
        if isinstance(e, OSError) and op['op'] in ('WRITE', 'PARSE'):
            return   # injected / file-system errors propagate; that is correct
        if op['op'] == 'PARSE':
            # the parser's documented failure modes include XML syntax errors
            if isinstance(e, (ET.ParseError, UnicodeError, NameError, SyntaxError)):
                return
        if isinstance(e, w.lib.documented):
            if w.stdout_closed and isinstance(e, ValueError) and 'closed file' in str(e):
                w.violate('C19', 'stdout in ' + self.opname(op, ev), {'closed': True})
            return
        if isinstance(e, AttributeError) and self.unknown_dot_name(w, op):
            return
        w.violate('C19', 'internal:%s in %s' % (t, self.opname(op, ev)), {'raised_in': _where(e, w.lib.path)})

    def opname(self, op, ev):
        return self.PUBLIC.get(ev.get('stage'), op['op'].lower())

    def unknown_dot_name(self, w, op):
        """AttributeError is documented only for a dot read/write whose name the model says is neither
        an attribute nor a child of that element."""
        k = op['op']
        if k in ('ATTR_SET', 'ATTR_GET'):
            node = w.node(op['p'])
            return node is not None and schema_attr_name(node.name, op['name']) is None
        if k in ('DOT_SET', 'DOT_GET'):
            node = w.node(op['p'])
            if node is None:
                return False
            m = spec.model_for_element(node.name)
            return m is None or op['name'] not in m.alpha
        return False


def _where(e, libpath):
    tb = e.__traceback__
    last = None
    while tb is not None:
        fn = tb.tb_frame.f_code.co_filename
        if fn.startswith(libpath) or 'verysimpletree' in fn:
            last = '%s:%s' % (fn.rsplit('/', 1)[-1], tb.tb_frame.f_code.co_name)
        tb = tb.tb_next
    return last


# ---------------------------------------------------------------------------------- reach probes
class Reach(Checker):
    """Counts abstract states and rare conditions from the public side (no trace)."""

    def after(self, w, op, ev):
        if 'p' in op:
            node = w.node(op['p'])
            if node is not None:
                w.note_state(node)
        f = op.get('fault')
        if f and ev['r'] == 'exc':
            w.count('fault.' + f)
        elif f:
            w.count('fault.' + f + '.not_fired')
        elif ev['r'] == 'exc' and op['op'] in ('ADD', 'DOT_SET', 'REPLACE', 'REMOVE', 'ATTR_SET', 'VALUE_SET'):
            w.count('fault.rej.unplanned')
        elif ev['r'] == 'exc' and op['op'] in ('TO_STRING', 'WRITE'):
            w.count('fault.rej.incomplete_serialise')
        if op['op'] == 'TO_STRING' and ev['r'] == 'ok':
            w.count('reach.serialised_ok')
        if ev.get('stdout'):
            w.count('reach.intelligent_choice_ran')

"""Main-side evaluation of one history on one library: the run itself (in-run oracles) plus the
twin runs (erasure / projection / other-surface) that some properties need.  Everything executes
in fresh forks of a zygote of the chosen library.

evaluate() is used three ways: on the repository (deciding), on the frozen baseline snapshot
(known-finding guard) and by the minimiser (candidate histories)."""
import json

from . import runner, twins

TWIN_PROPS = set(twins.TWINS)


def canon(v):
    return json.dumps({'clause': v['clause'], 'at': v.get('at'), 'detail': v.get('detail')}, sort_keys=True, default=str)


def evaluate(prop, ops, lib_path, opts=None, main=None):
    """-> (main_result, violations).  `main` may be an already executed gen result for these ops."""
    z = runner.zygote(lib_path)
    if main is None:
        main = z.run({'mode': 'replay', 'property': prop, 'ops': ops, 'opts': opts or {}})
    viol = list(main['viol'])
    if prop in TWIN_PROPS:
        viol.extend(twins.TWINS[prop](prop, ops, main, z, opts or {}))
    return main, viol


def split_known(prop, viol_repo, viol_base, known_clauses):
    """Partition the repository's violations into (known, new): known iff the clause is listed and the
    baseline shows the identical violation on the same history."""
    base = {}
    for v in viol_base:
        base[canon(v)] = base.get(canon(v), 0) + 1
    known, new = [], []
    for v in viol_repo:
        k = canon(v)
        if v['clause'] in known_clauses and base.get(k, 0) > 0:
            known.append(v)
        else:
            new.append(v)
    return known, new

"""Grammar-driven document generation from the reference model (independent of the library):
complete, schema-valid element trees as childspecs (for the library to build) or as XML text
(the foreign-writer stub of C09)."""
import xml.etree.ElementTree as ET

from . import spec

NONASCII = ['Prélude', 'Füße', '中文', 'Ærø', 'naïve café', 'Ω≈ç', 'Dvořák', '\U0001F3B5 song']


def _value(rng, name, nonascii=False):
    g, _b = spec.element_value_exemplars(name)
    if not g:
        return None
    t = spec.ELEM_TYPE[name]
    sc = spec.simple_content_type(t)
    kind = spec.simple_info(sc)['kind'] if sc else None
    if nonascii and kind in ('string', 'token') and rng.random() < 0.5:
        return rng.choice(NONASCII)
    return rng.choice(g)


def usable_attr(a, foreign):
    if foreign is True:
        return True
    return not (a.startswith('xlink:') or a == 'xml:space' or a == 'name' or a == 'xml:lang' or a == 'source')


def gen_tree(rng, name, budget, depth=0, nonascii=False, foreign=False, p_opt_attr=0.15, ids=None):
    """A complete valid tree rooted at element `name` with at most ~budget[0] nodes."""
    if ids is None:
        ids = {'n': 0, 'all': []}
    cs = {'name': name, 'value': _value(rng, name, nonascii), 'attrs': {}, 'xsd_check': True, 'kids': []}
    budget[0] -= 1
    for a, d in spec.attributes_of_element(name).items():
        if not usable_attr(a, foreign):
            if d['required']:
                return None     # the pinned library cannot be given this required attribute
            continue
        if d['required'] or rng.random() < p_opt_attr:
            if d.get('fixed') is not None:
                v = d['fixed']
            elif d['type'] == 'xs:ID':
                ids['n'] += 1
                v = 'id%d' % ids['n']
                ids['all'].append(v)
            elif d['type'] == 'xs:IDREF':
                if not ids['all']:
                    if d['required']:
                        ids['n'] += 1
                        v = 'id%d' % ids['n']
                        ids.setdefault('dangling', []).append(v)
                    else:
                        continue
                else:
                    v = rng.choice(ids['all'])
            else:
                g, _b = spec.exemplars(d['type'])
                if not g:
                    if d['required']:
                        return None
                    continue
                v = rng.choice(g)
                if nonascii and spec.simple_info(d['type'])['kind'] in ('string', 'token') and rng.random() < 0.3:
                    v = rng.choice(NONASCII)
            cs['attrs'][a if foreign else spec.py_attr_name(a)] = v
    m = spec.model_for_element(name)
    if m is not None:
        if budget[0] <= 2 or depth >= 6:
            word = m.missing([]) or []
        else:
            word = m.sample_word(rng, maxlen=rng.randint(1, 6), stop_p=0.4)
            if len(word) > budget[0]:
                word = m.missing([]) or []
        for x in word:
            k = gen_tree(rng, x, budget, depth + 1, nonascii, foreign, p_opt_attr, ids)
            if k is None:
                # replace by a minimal completion without that child if possible; else give up
                return None
            cs['kids'].append(k)
    return cs


def gen_score(rng, size=30, nonascii=False, foreign=False):
    """A complete score-partwise (retries until the model can vouch for every node)."""
    for _ in range(30):
        t = gen_tree(rng, 'score-partwise', [size], nonascii=nonascii, foreign=foreign)
        if t is not None:
            return t
    return None


def count_nodes(cs):
    return 1 + sum(count_nodes(k) for k in cs.get('kids') or [])


def walk(cs, path=()):
    yield path, cs
    for i, k in enumerate(cs.get('kids') or []):
        yield from walk(k, path + (i,))


# ---------------------------------------------------------------------------------- XML text (foreign writer)
XML_NS = 'http://www.w3.org/XML/1998/namespace'
XLINK_NS = 'http://www.w3.org/1999/xlink'


def to_et(cs):
    attrs = {}
    for k, v in cs['attrs'].items():
        if k.startswith('xml:'):
            attrs['{%s}%s' % (XML_NS, k[4:])] = _fmt(v)
        elif k.startswith('xlink:'):
            attrs['{%s}%s' % (XLINK_NS, k[6:])] = _fmt(v)
        else:
            attrs[k] = _fmt(v)
    e = ET.Element(cs['name'], attrs)
    if cs.get('value') is not None:
        e.text = _fmt(cs['value'])
    for k in cs.get('kids') or []:
        e.append(to_et(k))
    return e


def _fmt(v):
    if isinstance(v, float) and v == int(v):
        return str(v)
    return str(v)


def to_xml(cs, style=0):
    ET.register_namespace('xlink', XLINK_NS)
    e = to_et(cs)
    if style == 1:
        ET.indent(e, space='  ')
    elif style == 2:
        ET.indent(e, space='\t')
    body = ET.tostring(e, encoding='unicode')
    return '<?xml version="1.0" encoding="UTF-8" standalone="no"?>\n' + body + '\n'

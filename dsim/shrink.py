"""Minimisation of an operation-and-fault list: delta debugging plus structural simplification.
The predicate re-executes every candidate in fresh forks; it decides, the shrinker only proposes."""
import copy
import time


def ddmin(ops, fails, budget_s=20.0, max_tests=400):
    t0 = time.time()
    tests = [0]

    def test(c):
        if tests[0] >= max_tests or time.time() - t0 > budget_s:
            return False
        tests[0] += 1
        try:
            return bool(fails(c))
        except Exception:
            return False

    cur = list(ops)
    # 1. cut the tail after the violating op is the predicate's job; try chunks
    n = 2
    while len(cur) >= 2:
        chunk = max(1, len(cur) // n)
        reduced = False
        i = 0
        while i < len(cur):
            cand = cur[:i] + cur[i + chunk:]
            if cand and test(cand):
                cur = cand
                reduced = True
                n = max(n - 1, 2)
            else:
                i += chunk
        if not reduced:
            if chunk == 1:
                break
            n = min(n * 2, len(cur))
        if tests[0] >= max_tests or time.time() - t0 > budget_s:
            break
    # 2. simplify single ops
    for i in range(len(cur)):
        for cand_op in simplify_op(cur[i]):
            cand = cur[:i] + [cand_op] + cur[i + 1:]
            if test(cand):
                cur = cand
    return cur, tests[0]


def simplify_op(op):
    """Candidates simpler than op (drop attributes, kids, make opaque, drop flags)."""
    out = []
    for key in ('c',):
        if key in op and isinstance(op[key], dict):
            cs = op[key]
            if cs.get('attrs'):
                o = copy.deepcopy(op)
                o[key]['attrs'] = {}
                out.append(o)
            if cs.get('kids'):
                o = copy.deepcopy(op)
                o[key]['kids'] = []
                out.append(o)
    if op.get('op') == 'DOT_SET' and op['v'].get('kind') == 'element' and op['v']['c'].get('attrs'):
        o = copy.deepcopy(op)
        o['v']['c']['attrs'] = {}
        out.append(o)
    if op.get('ic'):
        o = dict(op)
        o['ic'] = False
        out.append(o)
    if op.get('by') == 'pred':
        o = dict(op)
        o['by'] = 'ref'
        out.append(o)
    return out



def renumber_drop(ops, created, k):
    """Drop op k (which created child index j under parent path p, as recorded in `created`) and shift every later
    reference to a younger sibling (p + [i], i > j) down by one.  Returns None if a later op refers to the dropped
    child itself."""
    p, j = created[k]
    out = []
    for t, op in enumerate(ops):
        if t == k:
            continue
        o = op
        for key in ('p', 'attached'):
            path = o.get(key)
            if t > k and isinstance(path, list) and len(path) > len(p) and path[:len(p)] == p and isinstance(path[len(p)], int):
                i = path[len(p)]
                if i == j:
                    return None
                if i > j:
                    o = dict(o)
                    o[key] = path[:len(p)] + [i - 1] + path[len(p) + 1:]
        if t > k and o.get('op') in ('REMOVE', 'REPLACE') and o.get('p') == p and isinstance(o.get('i'), int) and 'reuse' not in o \
                and 'attached' not in o and not o.get('foreign'):
            if o['i'] == j:
                return None
            if o['i'] > j:
                o = dict(o)
                o['i'] = o['i'] - 1
        out.append(o)
    return out


def created_children(ops, events):
    """{op index: (parent path, child index)} for the ops that appended a child (successful ADD without re-use of an
    attached node), computed from the recorded outcomes; removals make the bookkeeping unreliable, so it stops at
    the first successful removal under the same parent."""
    count = {}
    created = {}
    dirty = set()
    for t, (op, ev) in enumerate(zip(ops, events)):
        kind = op.get('op')
        if kind == 'NEW' and ev.get('r') == 'ok':
            count[(op['doc'],)] = len(op['c'].get('kids') or [])
        p = tuple(op['p']) if isinstance(op.get('p'), list) else None
        if p is None:
            continue
        if kind in ('REMOVE', 'DOT_SET', 'DEEPCOPY') or (kind == 'REPLACE'):
            if ev.get('r') == 'ok':
                dirty.add(p)
        if kind == 'ADD' and ev.get('r') == 'ok' and 'attached' not in op and p not in dirty:
            j = count.get(p, 0)
            created[t] = (list(p), j)
            count[p] = j + 1
            count[p + (j,)] = len((op.get('c') or {}).get('kids') or [])
    return created


def shrink_siblings(ops, events, fails, budget_s=60.0, max_tests=400):
    """Second pass for long histories: drop successful ADDs whose child nobody refers to, renumbering the paths of
    younger siblings (plain ddmin cannot, because paths are positional)."""
    import time as _t
    t0 = _t.time()
    cur, evs = list(ops), list(events)
    tests = 0
    k = len(cur)
    while k > 0 and tests < max_tests and _t.time() - t0 < budget_s:
        k -= 1
        created = created_children(cur, evs)
        if k not in created:
            continue
        cand = renumber_drop(cur, created, k)
        if cand is None:
            continue
        tests += 1
        r = fails(cand)
        if r:
            cur = cand
            evs = r if isinstance(r, list) else evs[:k] + evs[k + 1:]
    return cur, tests

"""Minimisation of an operation-and-fault list: delta debugging plus structural simplification.
The predicate re-executes every candidate in fresh forks; it decides, the shrinker only proposes."""
import copy
import time


def ddmin(ops, fails, budget_s=20.0, max_tests=400):
    t0 = time.time()
    tests = [0]

    def test(c):
        if tests[0] >= max_tests or time.time() - t0 > budget_s:
            return False
        tests[0] += 1
        try:
            return bool(fails(c))
        except Exception:
            return False

    cur = list(ops)
    # 1. cut the tail after the violating op is the predicate's job; try chunks
    n = 2
    while len(cur) >= 2:
        chunk = max(1, len(cur) // n)
        reduced = False
        i = 0
        while i < len(cur):
            cand = cur[:i] + cur[i + chunk:]
            if cand and test(cand):
                cur = cand
                reduced = True
                n = max(n - 1, 2)
            else:
                i += chunk
        if not reduced:
            if chunk == 1:
                break
            n = min(n * 2, len(cur))
        if tests[0] >= max_tests or time.time() - t0 > budget_s:
            break
    # 2. simplify single ops
    for i in range(len(cur)):
        for cand_op in simplify_op(cur[i]):
            cand = cur[:i] + [cand_op] + cur[i + 1:]
            if test(cand):
                cur = cand
    return cur, tests[0]


def simplify_op(op):
    """Candidates simpler than op (drop attributes, kids, make opaque, drop flags)."""
    out = []
    for key in ('c',):
        if key in op and isinstance(op[key], dict):
            cs = op[key]
            if cs.get('attrs'):
                o = copy.deepcopy(op)
                o[key]['attrs'] = {}
                out.append(o)
            if cs.get('kids'):
                o = copy.deepcopy(op)
                o[key]['kids'] = []
                out.append(o)
    if op.get('op') == 'DOT_SET' and op['v'].get('kind') == 'element' and op['v']['c'].get('attrs'):
        o = copy.deepcopy(op)
        o['v']['c']['attrs'] = {}
        out.append(o)
    if op.get('ic'):
        o = dict(op)
        o['ic'] = False
        out.append(o)
    if op.get('by') == 'pred':
        o = dict(op)
        o['by'] = 'ref'
        out.append(o)
    return out

"""SimFS: an in-memory file system patched in at builtins.open / io.open / os.* for one virtual
mount (/simfs/...).  It owns: prior file state, default text encoding, injected OSErrors at
open / write / close, short writes, what becomes durable, and the stored bytes between write
and read.  Everything outside the mount is passed through to the real functions."""
import builtins
import errno
import io
import os

MOUNT = '/simfs/'


class SimFS:
    def __init__(self, default_encoding='utf-8'):
        self.files = {}        # path -> bytes (durable content)
        self.dirs = {MOUNT.rstrip('/')}
        self.readonly = set()
        self.default_encoding = default_encoding
        self.faults = {}       # kind -> params (armed; consumed when they fire)
        self.fired = []        # list of fault kinds that actually fired
        self.trace = []        # (event, path, info)
        self._fds = {}
        self._next_fd = 100000
        self._orig = None

    # ------------------------------------------------------------ patching
    def install(self):
        assert self._orig is None
        self._orig = {
            'builtins.open': builtins.open, 'io.open': io.open, 'os.replace': os.replace,
            'os.rename': os.rename, 'os.remove': os.remove, 'os.unlink': os.unlink,
            'os.path.exists': os.path.exists, 'os.fsync': os.fsync, 'os.path.isfile': os.path.isfile,
        }
        fs = self

        def _open(file, mode='r', buffering=-1, encoding=None, errors=None, newline=None, closefd=True, opener=None):
            p = fs._mine(file)
            if p is None:
                return fs._orig['builtins.open'](file, mode, buffering, encoding, errors, newline, closefd, opener)
            return fs.open(p, mode, encoding, errors, newline)

        def _replace(src, dst, *a, **k):
            ps, pd = fs._mine(src), fs._mine(dst)
            if ps is None and pd is None:
                return fs._orig['os.replace'](src, dst, *a, **k)
            return fs.replace(ps, pd)

        def _remove(path, *a, **k):
            p = fs._mine(path)
            if p is None:
                return fs._orig['os.remove'](path, *a, **k)
            return fs.remove(p)

        def _exists(path):
            p = fs._mine(path)
            if p is None:
                return fs._orig['os.path.exists'](path)
            return p in fs.files or p in fs.dirs

        def _isfile(path):
            p = fs._mine(path)
            if p is None:
                return fs._orig['os.path.isfile'](path)
            return p in fs.files

        def _fsync(fd):
            if fd in fs._fds:
                fs._fds[fd].flush()
                return None
            return fs._orig['os.fsync'](fd)

        builtins.open = _open
        io.open = _open
        os.replace = _replace
        os.rename = _replace
        os.remove = _remove
        os.unlink = _remove
        os.path.exists = _exists
        os.path.isfile = _isfile
        os.fsync = _fsync

    def uninstall(self):
        o = self._orig
        if o is None:
            return
        builtins.open = o['builtins.open']
        io.open = o['io.open']
        os.replace = o['os.replace']
        os.rename = o['os.rename']
        os.remove = o['os.remove']
        os.unlink = o['os.unlink']
        os.path.exists = o['os.path.exists']
        os.path.isfile = o['os.path.isfile']
        os.fsync = o['os.fsync']
        self._orig = None

    @staticmethod
    def _mine(path):
        try:
            p = os.fspath(path)
        except TypeError:
            return None
        if isinstance(p, bytes):
            p = p.decode('utf-8', 'replace')
        if isinstance(p, str) and p.startswith(MOUNT):
            return p
        return None

    # ------------------------------------------------------------ fault helpers
    def arm(self, kind, params=None):
        self.faults[kind] = dict(params or {})

    def _fire(self, kind):
        self.fired.append(kind)

    # ------------------------------------------------------------ operations
    def open(self, path, mode='r', encoding=None, errors=None, newline=None):
        binary = 'b' in mode
        m = mode.replace('b', '').replace('t', '')
        self.trace.append(('open', path, mode, encoding))
        f = self.faults.get('fs.open_err')
        if f is not None:
            del self.faults['fs.open_err']
            self._fire('fs.open_err')
            raise OSError(f.get('errno', errno.EIO), os.strerror(f.get('errno', errno.EIO)), path)
        if path in self.dirs:
            self._fire('fs.is_dir')
            raise IsADirectoryError(errno.EISDIR, 'Is a directory', path)
        writing = m[0] in 'wax' or '+' in m
        if writing and path in self.readonly:
            self._fire('fs.readonly')
            raise PermissionError(errno.EACCES, 'Permission denied', path)
        if m[0] == 'r' and path not in self.files:
            raise FileNotFoundError(errno.ENOENT, 'No such file or directory', path)
        if m[0] == 'x' and path in self.files:
            raise FileExistsError(errno.EEXIST, 'File exists', path)
        if not binary and encoding is None:
            encoding = self.default_encoding
        h = SimHandle(self, path, m, binary, encoding, errors or 'strict', newline)
        if m[0] in 'wx':
            # open-for-write truncates immediately and durably (as a real O_TRUNC does)
            self.files[path] = b''
        elif m[0] == 'a' and path not in self.files:
            self.files[path] = b''
        return h

    def replace(self, src, dst):
        if src is None or dst is None:
            raise OSError(errno.EXDEV, 'cross-device rename between SimFS and real fs')
        if src not in self.files:
            raise FileNotFoundError(errno.ENOENT, 'No such file or directory', src)
        if dst in self.dirs:
            raise IsADirectoryError(errno.EISDIR, 'Is a directory', dst)
        self.files[dst] = self.files.pop(src)   # atomic
        self.trace.append(('replace', src, dst))

    def remove(self, path):
        if path not in self.files:
            raise FileNotFoundError(errno.ENOENT, 'No such file or directory', path)
        del self.files[path]
        self.trace.append(('remove', path))

    def state(self, path):
        """Durable state of a path as a JSON-able pair."""
        if path in self.dirs:
            return ['dir']
        if path not in self.files:
            return ['absent']
        return ['file', self.files[path].hex()]


class SimHandle:
    """File object for one open() on SimFS (text or binary)."""

    def __init__(self, fs, path, mode, binary, encoding, errors, newline):
        self.fs = fs
        self.name = path
        self.mode = mode + ('b' if binary else '')
        self.binary = binary
        self.encoding = None if binary else encoding
        self.errors = errors
        self.closed = False
        self._nwrites = 0
        self._pos = 0
        self._fd = None
        self._rbuf = None
        if mode[0] == 'r':
            data = fs.files[path]
            if binary:
                self._rbuf = data
            else:
                # decoding errors surface at read time like a real TextIOWrapper (lazily); do it at first read
                self._rbuf = None
                self._raw = data

    # --- context manager
    def __enter__(self):
        return self

    def __exit__(self, et, ev, tb):
        self.close()
        return False

    def fileno(self):
        if self._fd is None:
            self._fd = self.fs._next_fd
            self.fs._next_fd += 1
            self.fs._fds[self._fd] = self
        return self._fd

    def readable(self):
        return self.mode[0] == 'r' or '+' in self.mode

    def writable(self):
        return self.mode[0] in 'wax' or '+' in self.mode

    def seekable(self):
        return False

    def flush(self):
        return None

    # --- reading
    def _ensure_text(self):
        if self._rbuf is None:
            text = self._raw.decode(self.encoding, self.errors)
            # universal newlines
            text = text.replace('\r\n', '\n').replace('\r', '\n')
            self._rbuf = text

    def read(self, n=-1):
        if self.closed:
            raise ValueError('I/O operation on closed file.')
        if not self.readable():
            raise io.UnsupportedOperation('not readable')
        if not self.binary:
            self._ensure_text()
        if n is None or n < 0:
            out = self._rbuf[self._pos:]
            self._pos = len(self._rbuf)
        else:
            out = self._rbuf[self._pos:self._pos + n]
            self._pos += len(out)
        return out

    def readline(self):
        if not self.binary:
            self._ensure_text()
        nl = b'\n' if self.binary else '\n'
        i = self._rbuf.find(nl, self._pos)
        if i < 0:
            return self.read()
        out = self._rbuf[self._pos:i + 1]
        self._pos = i + 1
        return out

    def __iter__(self):
        while True:
            line = self.readline()
            if not line:
                return
            yield line

    # --- writing
    def write(self, data):
        if self.closed:
            raise ValueError('I/O operation on closed file.')
        if not self.writable():
            raise io.UnsupportedOperation('not writable')
        self._nwrites += 1
        fs = self.fs
        f = fs.faults.get('fs.write_err')
        if f is not None and f.get('nth', 1) == self._nwrites:
            del fs.faults['fs.write_err']
            fs._fire('fs.write_err')
            raise OSError(f.get('errno', errno.EIO), os.strerror(f.get('errno', errno.EIO)), self.name)
        if self.binary:
            if isinstance(data, str):
                raise TypeError("a bytes-like object is required, not 'str'")
            b = bytes(data)
        else:
            if not isinstance(data, str):
                raise TypeError('write() argument must be str, not ' + type(data).__name__)
            b = data.encode(self.encoding, self.errors)
        f = fs.faults.get('fs.enospc')
        if f is not None:
            room = f.get('room', 0) - len(fs.files.get(self.name, b''))
            if len(b) > room:
                del fs.faults['fs.enospc']
                fs._fire('fs.enospc')
                fs.files[self.name] = fs.files.get(self.name, b'') + b[:max(room, 0)]
                raise OSError(errno.ENOSPC, os.strerror(errno.ENOSPC), self.name)
        f = fs.faults.get('fs.short_write')
        if f is not None and f.get('nth', 1) == self._nwrites:
            del fs.faults['fs.short_write']
            fs._fire('fs.short_write')
            keep = min(len(b), f.get('keep', len(b) // 2))
            fs.files[self.name] = fs.files.get(self.name, b'') + b[:keep]
            raise OSError(errno.EIO, os.strerror(errno.EIO), self.name)
        fs.files[self.name] = fs.files.get(self.name, b'') + b
        return len(data)

    def writelines(self, lines):
        for l in lines:
            self.write(l)

    def close(self):
        if self.closed:
            return
        self.closed = True
        if self._fd is not None:
            self.fs._fds.pop(self._fd, None)
        f = self.fs.faults.get('fs.close_err')
        if f is not None and self.writable():
            del self.fs.faults['fs.close_err']
            self.fs._fire('fs.close_err')
            raise OSError(errno.EIO, os.strerror(errno.EIO), self.name)

"""SimFS: the file system seam under write() / parse_musicxml().

The simulated mount is a REAL scratch directory (under /dev/shm, one per run process, removed by the
zygote when the run ends), so every file API an implementation may use works on it - os.open, tempfile in
the destination's directory, pathlib, os.replace, shutil.  On top of it builtins.open / io.open are
intercepted for paths under the mount, which is where the simulator owns:

  * the default text encoding when the caller passes none (utf-8, ascii, latin-1, cp1252),
  * injected OSErrors at open / at the n-th write call / at close, short writes, ENOSPC,
    read-only destinations, directories in the way,
  * what is durable: bytes reach the real file at every write call (as with an unbuffered file); truncation
    happens at open-for-write, exactly like O_TRUNC.

Prior destination states and storage faults (dsim.diskfaults) rewrite the real files directly.
Everything outside the mount is passed through untouched."""
import builtins
import errno
import io
import os
import shutil

_real_open = builtins.open
BASE = '/dev/shm' if os.path.isdir('/dev/shm') else '/tmp'


def mount_for(pid):
    return os.path.join(BASE, 'dsimfs-%d' % pid) + '/'


# the mount of this process; forks of a run (fault cases, observations) keep their parent's mount
MOUNT = mount_for(os.getpid())


def set_mount_for_this_process():
    global MOUNT
    MOUNT = mount_for(os.getpid())
    return MOUNT


def cleanup(pid):
    shutil.rmtree(mount_for(pid).rstrip('/'), ignore_errors=True)


class _Files:
    """Mapping facade over the real scratch directory: path -> bytes (durable content)."""

    def __init__(self, fs):
        self.fs = fs

    def _ok(self, path):
        return isinstance(path, str) and path.startswith(self.fs.mount)

    def __contains__(self, path):
        return self._ok(path) and os.path.isfile(path)

    def get(self, path, default=None):
        if path in self:
            with _real_open(path, 'rb') as f:
                return f.read()
        return default

    def __getitem__(self, path):
        v = self.get(path)
        if v is None:
            raise KeyError(path)
        return v

    def __setitem__(self, path, data):
        self.fs.ensure()
        if os.path.isdir(path):
            shutil.rmtree(path, ignore_errors=True)
        with _real_open(path, 'wb') as f:
            f.write(data)

    def pop(self, path, default=None):
        v = self.get(path, default)
        if path in self:
            os.remove(path)
        return v

    def append(self, path, data):
        with _real_open(path, 'ab') as f:
            f.write(data)


class SimFS:
    def __init__(self, default_encoding='utf-8'):
        self.mount = MOUNT
        self.files = _Files(self)
        self.readonly = set()
        self.default_encoding = default_encoding
        self.faults = {}       # kind -> params (armed; consumed when they fire)
        self.fired = []        # fault kinds that actually fired
        self.trace = []
        self._orig = None
        self._made = False

    def ensure(self):
        if not self._made:
            os.makedirs(self.mount, exist_ok=True)
            self._made = True

    @property
    def dirs(self):
        return _Dirs(self)

    # ------------------------------------------------------------ patching
    def install(self):
        assert self._orig is None
        self.ensure()
        self._orig = {'builtins.open': builtins.open, 'io.open': io.open}
        fs = self

        def _open(file, mode='r', buffering=-1, encoding=None, errors=None, newline=None, closefd=True, opener=None):
            p = fs._mine(file)
            if p is None or opener is not None:
                return fs._orig['builtins.open'](file, mode, buffering, encoding, errors, newline, closefd, opener)
            return fs.open(p, mode, encoding, errors, newline)

        builtins.open = _open
        io.open = _open

    def uninstall(self):
        o = self._orig
        if o is None:
            return
        builtins.open = o['builtins.open']
        io.open = o['io.open']
        self._orig = None

    def _mine(self, path):
        if isinstance(path, int):
            return None
        try:
            p = os.fspath(path)
        except TypeError:
            return None
        if isinstance(p, bytes):
            p = p.decode('utf-8', 'replace')
        if isinstance(p, str) and p.startswith(self.mount):
            return p
        return None

    # ------------------------------------------------------------ fault helpers
    def arm(self, kind, params=None):
        self.faults[kind] = dict(params or {})

    def _fire(self, kind):
        self.fired.append(kind)

    # ------------------------------------------------------------ operations
    def open(self, path, mode='r', encoding=None, errors=None, newline=None):
        binary = 'b' in mode
        m = mode.replace('b', '').replace('t', '')
        self.trace.append(('open', path, mode, encoding))
        f = self.faults.get('fs.open_err')
        if f is not None:
            del self.faults['fs.open_err']
            self._fire('fs.open_err')
            raise OSError(f.get('errno', errno.EIO), os.strerror(f.get('errno', errno.EIO)), path)
        if os.path.isdir(path):
            self._fire('fs.is_dir')
            raise IsADirectoryError(errno.EISDIR, 'Is a directory', path)
        writing = m[0] in 'wax' or '+' in m
        if writing and path in self.readonly:
            self._fire('fs.readonly')
            raise PermissionError(errno.EACCES, 'Permission denied', path)
        exists = os.path.isfile(path)
        if m[0] == 'r' and not exists:
            raise FileNotFoundError(errno.ENOENT, 'No such file or directory', path)
        if m[0] == 'x' and exists:
            raise FileExistsError(errno.EEXIST, 'File exists', path)
        if not binary and encoding is None:
            encoding = self.default_encoding
        h = SimHandle(self, path, m, binary, encoding, errors or 'strict', newline)
        if m[0] in 'wx':
            # open-for-write truncates immediately and durably (as a real O_TRUNC does)
            self.files[path] = b''
        elif m[0] == 'a' and not exists:
            self.files[path] = b''
        return h

    def state(self, path):
        """Durable state of a path as a JSON-able pair."""
        if os.path.isdir(path):
            return ['dir']
        if not os.path.isfile(path):
            return ['absent']
        return ['file', self.files[path].hex()]

    def listing(self):
        """Names present in the mount (to notice stray temporary files)."""
        try:
            return sorted(os.listdir(self.mount))
        except OSError:
            return []


class _Dirs:
    def __init__(self, fs):
        self.fs = fs

    def add(self, path):
        self.fs.ensure()
        if os.path.isfile(path):
            os.remove(path)
        os.makedirs(path, exist_ok=True)

    def __contains__(self, path):
        return os.path.isdir(path)


class SimHandle:
    """File object for one intercepted open() on the mount (text or binary)."""

    def __init__(self, fs, path, mode, binary, encoding, errors, newline):
        self.fs = fs
        self.name = path
        self.mode = mode + ('b' if binary else '')
        self.binary = binary
        self.encoding = None if binary else encoding
        self.errors = errors
        self.newline = newline
        self.closed = False
        self._nwrites = 0
        self._pos = 0
        self._fd = None
        self._rbuf = None
        if mode[0] == 'r':
            data = fs.files[path]
            if binary:
                self._rbuf = data
            else:
                self._rbuf = None          # decoding errors surface at read time, like a real TextIOWrapper
                self._raw = data

    def __enter__(self):
        return self

    def __exit__(self, et, ev, tb):
        self.close()
        return False

    def fileno(self):
        if self._fd is None:
            self._fd = os.open(self.name, os.O_RDONLY)
        return self._fd

    def readable(self):
        return self.mode[0] == 'r' or '+' in self.mode

    def writable(self):
        return self.mode[0] in 'wax' or '+' in self.mode

    def seekable(self):
        return self.mode[0] == 'r'

    def tell(self):
        if self.closed:
            raise ValueError('I/O operation on closed file.')
        if self.mode[0] != 'r':
            raise io.UnsupportedOperation('tell on a write handle is not simulated')
        return self._pos

    def seek(self, pos, whence=0):
        # read handles only (a library that peeks at the head of the file and rewinds, seeded change C17-m7);
        # text positions are character offsets, which is what seek(0) / seek(tell()) need
        if self.closed:
            raise ValueError('I/O operation on closed file.')
        if self.mode[0] != 'r':
            raise io.UnsupportedOperation('seek on a write handle is not simulated')
        if not self.binary:
            self._ensure_text()
        n = len(self._rbuf)
        if whence == 0:
            self._pos = max(0, min(pos, n))
        elif whence == 1:
            self._pos = max(0, min(self._pos + pos, n))
        elif whence == 2:
            self._pos = max(0, min(n + pos, n))
        else:
            raise ValueError('invalid whence')
        return self._pos

    def flush(self):
        return None

    def isatty(self):
        return False

    # --- reading
    def _ensure_text(self):
        if self._rbuf is None:
            text = self._raw.decode(self.encoding, self.errors)
            if self.newline is None:
                text = text.replace('\r\n', '\n').replace('\r', '\n')     # universal newlines
            self._rbuf = text

    def read(self, n=-1):
        if self.closed:
            raise ValueError('I/O operation on closed file.')
        if not self.readable():
            raise io.UnsupportedOperation('not readable')
        if not self.binary:
            self._ensure_text()
        if n is None or n < 0:
            out = self._rbuf[self._pos:]
            self._pos = len(self._rbuf)
        else:
            out = self._rbuf[self._pos:self._pos + n]
            self._pos += len(out)
        return out

    def readline(self):
        if not self.binary:
            self._ensure_text()
        nl = b'\n' if self.binary else '\n'
        i = self._rbuf.find(nl, self._pos)
        if i < 0:
            return self.read()
        out = self._rbuf[self._pos:i + 1]
        self._pos = i + 1
        return out

    def readlines(self):
        return list(self)

    def __iter__(self):
        while True:
            line = self.readline()
            if not line:
                return
            yield line

    # --- writing
    def write(self, data):
        if self.closed:
            raise ValueError('I/O operation on closed file.')
        if not self.writable():
            raise io.UnsupportedOperation('not writable')
        self._nwrites += 1
        fs = self.fs
        f = fs.faults.get('fs.write_err')
        if f is not None and f.get('nth', 1) == self._nwrites:
            del fs.faults['fs.write_err']
            fs._fire('fs.write_err')
            raise OSError(f.get('errno', errno.EIO), os.strerror(f.get('errno', errno.EIO)), self.name)
        if self.binary:
            if isinstance(data, str):
                raise TypeError("a bytes-like object is required, not 'str'")
            b = bytes(data)
        else:
            if not isinstance(data, str):
                raise TypeError('write() argument must be str, not ' + type(data).__name__)
            text = data
            if self.newline in ('\r\n', '\r'):
                text = text.replace('\n', self.newline)
            b = text.encode(self.encoding, self.errors)
        have = len(fs.files.get(self.name, b''))
        f = fs.faults.get('fs.enospc')
        if f is not None:
            room = f.get('room', 0) - have
            if len(b) > room:
                del fs.faults['fs.enospc']
                fs._fire('fs.enospc')
                fs.files.append(self.name, b[:max(room, 0)])
                raise OSError(errno.ENOSPC, os.strerror(errno.ENOSPC), self.name)
        f = fs.faults.get('fs.short_write')
        if f is not None and f.get('nth', 1) == self._nwrites:
            del fs.faults['fs.short_write']
            fs._fire('fs.short_write')
            keep = min(len(b), f.get('keep', len(b) // 2))
            fs.files.append(self.name, b[:keep])
            raise OSError(errno.EIO, os.strerror(errno.EIO), self.name)
        fs.files.append(self.name, b)
        return len(data)

    def writelines(self, lines):
        for l in lines:
            self.write(l)

    def close(self):
        if self.closed:
            return
        self.closed = True
        if self._fd is not None:
            try:
                os.close(self._fd)
            except OSError:
                pass
        f = self.fs.faults.get('fs.close_err')
        if f is not None and self.writable():
            del self.fs.faults['fs.close_err']
            self.fs._fire('fs.close_err')
            raise OSError(errno.EIO, os.strerror(errno.EIO), self.name)

"""Zygote: a process that has imported the library under test (from a given path) and touched
nothing.  It serves jobs on stdin/stdout (length-prefixed JSON); every job runs in a fresh
fork() of the zygote, so lazily filled class tables, cached iterators and template containers
are pristine for every run and a run cannot influence the next.

Started as:  python -m dsim.zygote_main <lib_path>
"""
import faulthandler
import json
import os
import select
import signal
import struct
import sys
import time
import warnings


def _read_msg(f):
    hdr = f.read(4)
    if len(hdr) < 4:
        return None
    (n,) = struct.unpack('>I', hdr)
    data = f.read(n)
    if len(data) < n:
        return None
    return json.loads(data)


def _write_msg(f, obj):
    data = json.dumps(obj, default=str).encode()
    f.write(struct.pack('>I', len(data)))
    f.write(data)
    f.flush()


def serve(lib_path):
    warnings.simplefilter('ignore')
    lib_path = os.path.abspath(lib_path)
    sys.path.insert(0, lib_path)
    inp = os.fdopen(os.dup(0), 'rb')
    out = os.fdopen(os.dup(1), 'wb')
    # the library must never see the protocol pipe
    devnull = os.open(os.devnull, os.O_RDWR)
    os.dup2(devnull, 0)
    os.dup2(devnull, 1)
    t0 = time.time()
    import_error = None
    try:
        import musicxml
        import musicxml.xmlelement.xmlelement  # noqa
        import musicxml.parser.parser  # noqa
        where = os.path.dirname(os.path.dirname(os.path.abspath(musicxml.__file__)))
        if where != lib_path:
            import_error = 'imported musicxml from %s, wanted %s' % (where, lib_path)
    except BaseException as e:
        import_error = 'import failed: %s: %s' % (type(e).__name__, e)
    from . import jobs  # imports spec (builds the automata once, inherited by every fork)
    _write_msg(out, {'ready': import_error is None, 'error': import_error, 'import_s': time.time() - t0,
                     'pid': os.getpid()})
    if import_error:
        return 3
    while True:
        job = _read_msg(inp)
        if job is None:
            return 0
        if job.get('cmd') == 'quit':
            return 0
        timeout = job.get('timeout', 60)
        r, w = os.pipe()
        pid = os.fork()
        if pid == 0:
            code = 0
            try:
                os.close(r)
                inp.close()
                faulthandler.enable(file=sys.stderr)
                from . import simfs
                simfs.set_mount_for_this_process()
                try:
                    res = jobs.run_job(job)
                except BaseException as e:
                    import traceback
                    res = {'error': 'harness-exception', 'type': type(e).__name__, 'msg': str(e)[:500],
                           'tb': traceback.format_exc()[-3000:]}
                data = json.dumps(res, default=str).encode()
                with os.fdopen(w, 'wb') as f:
                    f.write(data)
            except BaseException:
                code = 1
            finally:
                os._exit(code)
        os.close(w)
        chunks = []
        deadline = time.time() + timeout
        timed_out = False
        while True:
            left = deadline - time.time()
            if left <= 0:
                timed_out = True
                break
            rl, _, _ = select.select([r], [], [], left)
            if not rl:
                timed_out = True
                break
            c = os.read(r, 1 << 16)
            if not c:
                break
            chunks.append(c)
        os.close(r)
        if timed_out:
            try:
                os.kill(pid, signal.SIGKILL)
            except ProcessLookupError:
                pass
        _, status = os.waitpid(pid, 0)
        try:
            from . import simfs
            simfs.cleanup(pid)
        except Exception:
            pass
        if timed_out:
            res = {'error': 'harness-timeout', 'timeout': timeout}
        elif not chunks:
            res = {'error': 'child-crash', 'status': status}
        else:
            try:
                res = json.loads(b''.join(chunks))
            except ValueError:
                res = {'error': 'bad-json'}
        _write_msg(out, res)

"""Main-side: zygote clients and the worker pool."""
import json
import os
import struct
import subprocess
import sys

VERIF = os.path.dirname(os.path.dirname(os.path.abspath(__file__)))
PY = sys.executable


class HarnessError(Exception):
    pass


class Zygote:
    def __init__(self, lib_path, env=None):
        self.lib_path = lib_path
        e = dict(os.environ)
        e['PYTHONHASHSEED'] = e.get('PYTHONHASHSEED', '0')
        e['PYTHONPATH'] = VERIF
        e['PYTHONDONTWRITEBYTECODE'] = '1'
        if env:
            e.update(env)
        self.p = subprocess.Popen([PY, '-u', '-W', 'ignore', os.path.join(VERIF, 'dsim', 'zygote_main.py'), lib_path],
                                  stdin=subprocess.PIPE, stdout=subprocess.PIPE, stderr=subprocess.DEVNULL,
                                  env=e, cwd=VERIF)
        hello = self._read()
        if hello is None or not hello.get('ready'):
            raise HarnessError('zygote for %s failed to start: %r' % (lib_path, hello))
        self.hello = hello

    def _read(self):
        hdr = self.p.stdout.read(4)
        if len(hdr) < 4:
            return None
        (n,) = struct.unpack('>I', hdr)
        data = self.p.stdout.read(n)
        return json.loads(data)

    def run(self, job):
        data = json.dumps(job).encode()
        try:
            self.p.stdin.write(struct.pack('>I', len(data)))
            self.p.stdin.write(data)
            self.p.stdin.flush()
        except BrokenPipeError:
            raise HarnessError('zygote died')
        r = self._read()
        if r is None:
            raise HarnessError('zygote died while running job')
        if 'error' in r:
            raise HarnessError('%s: %s' % (r['error'], json.dumps(r)[:2000]))
        return r

    def close(self):
        try:
            self.p.stdin.close()
        except Exception:
            pass
        try:
            self.p.wait(timeout=5)
        except Exception:
            self.p.kill()


_zy = {}


def zygote(lib_path):
    """Per-process cache of zygotes keyed by library path."""
    z = _zy.get(lib_path)
    if z is None or z.p.poll() is not None:
        z = Zygote(lib_path)
        _zy[lib_path] = z
    return z


def close_all():
    for z in _zy.values():
        z.close()
    _zy.clear()

"""Registry: per property — run mode, budgets, evidence rule, extras."""

REAL_VS_STUB = {
    'real': ['every module of musicxml (elements, matcher, XSD classes, parser, write) imported from the /repo working tree',
             'verysimpletree', 'xml.etree.ElementTree', 'copy', 'OS threads (C20; who runs is decided by the simulator)'],
    'stub': ['file system under write()/parse_musicxml(): SimFS (in-memory, patched at builtins.open/io.open/os.replace|rename|remove)',
             'process default text encoding: emulated by SimFS (utf-8/ascii/latin-1/cp1252); real C/POSIX locale in a sub-interpreter for C17',
             'stdout/stderr: capturing streams',
             'callers: generated actor programs; foreign MusicXML writer: grammar-driven generator from the reference model'],
    'clock': 'none in the system under test; event sequence numbers only',
}


class Prop:
    def __init__(self, pid, runs, wall, rule, level='exploration', mode='gen', opts=None, cfg=None, nontrivial=None,
                 extra=None, assumptions=None, prefix_closed=True, shrink_budget=20.0, timeout=60, replay=None):
        self.pid = pid
        self.runs = runs
        self.wall = wall
        self.rule = rule
        self.level = level
        self.mode = mode
        self.opts = opts or {}
        self.cfg = cfg or {}
        self.nontrivial = nontrivial or nt_fault_fired
        self.extra = extra
        self.assumptions = assumptions or []
        self.prefix_closed = prefix_closed
        self.shrink_budget = shrink_budget
        self.timeout = timeout
        self.replay = replay
        self.det_sample = 4


def nt_fault_fired(main):
    """Non-trivial: at least one fault actually fired (a call the library rejected, an injected error)."""
    return any(k.startswith('fault.') and not k.endswith('.not_fired') and v > 0 for k, v in main['stats'].items())


def nt_structure(main):
    """Non-trivial for history properties: at least one rejected call or one removal/replacement, and
    at least 3 executed operations."""
    s = main['stats']
    return len(main['ops']) >= 3 and (nt_fault_fired(main) or s.get('op.REMOVE', 0) + s.get('op.REPLACE', 0) > 0)


RULE_HIST = ('one evaluation = one seeded run (a world of 1-2 actors, each a generated operation history on its own '
             'document, executed in a fresh fork of a cold zygote); distinct = distinct operation lists (sha256 of the '
             'JSON op list); non-trivial = the run has >= 3 operations and contains at least one call the library '
             'rejected (fault fired) or one removal/replacement')

_P = {}


def reg(p):
    _P[p.pid] = p


def get(pid):
    if pid not in _P:
        raise KeyError('property %s is not claimed by this framework' % pid)
    return _P[pid]


def claimed():
    return sorted(_P)


def _has(main, *prefixes):
    return any(k.startswith(p) and v > 0 for k, v in main['stats'].items() for p in prefixes)


NT = {
    'C04': (lambda m: _has(m, 'c04.sets_judged', 'c04.ctor_judged', 'c04.parser_judged'),
            'one evaluation = one element class (all 441 in turn) given a seeded sequence of attribute assignments through constructor keyword, dot assignment and the parser (declared / undeclared names, certainly valid / invalid values, overwrite, None) interleaved with to_string(); distinct = distinct op lists; non-trivial = at least one assignment was judged against the reference store'),
    'C10': (lambda m: _has(m, 'c10.failed_calls_judged'),
            'one evaluation = one seeded history with a high rate of calls the library rejects, its forked observations after failures, and its erasure twin (the same history without the failed calls, in another pristine fork); distinct = distinct op lists; non-trivial = at least one failing call was judged (snapshot before/after + twin)'),
    'C11': (lambda m: _has(m, 'c11.removals_judged'),
            'one evaluation = one seeded history with removals; after every successful removal the live element and a rebuilt twin are observed in nested forks; distinct = distinct op lists; non-trivial = at least one removal was judged against its rebuilt twin'),
    'C13': (lambda m: len(set(m.get('interleaving') or '')) >= 2,
            'one evaluation = one world of 2-4 interleaved clients (seeded cooperative scheduler, one op = one step) plus canary, and one projection twin per document in pristine forks; distinct = distinct op lists; non-trivial = at least two clients were actually interleaved'),
    'C14': (lambda m: _has(m, 'c14.copies_judged'),
            'one evaluation = one history, a deepcopy at a seeded point, two owners mutating original and copy interleaved, forked observation at the copy and projection twins; distinct = distinct op lists; non-trivial = a copy was made and judged'),
    'C15': (lambda m: _has(m, 'c15.pairs_judged'),
            'one evaluation = one abstract program rendered on the explicit API and on the shortcut syntax (atomic PAIR steps, mixed renderings, dot reads on both documents); distinct = distinct op lists; non-trivial = at least one step pair was judged'),
    'C16': (lambda m: _has(m, 'fault.obs.interpose') or _has(m, 'c16.outputs_judged'),
            'one evaluation = one mutator task and one reader task sharing a tree under the seeded scheduler, plus two erasure twins (without all reads; without all but the last serialising read); distinct = distinct op lists; non-trivial = at least one serialisation was judged or one read interposed'),
    'C18': (lambda m: _has(m, 'c18.'),
            'one evaluation = one tree mixing checked and unchecked nodes (free / checked-twin / nested / transplant shapes); distinct = distinct op lists; non-trivial = at least one judgement specific to unchecked nodes was made'),
}

for _pid, _q, _t in (('C01', 12000, 120000), ('C06', 15000, 150000), ('C07', 12000, 120000), ('C12', 12000, 120000),
                     ('C19', 12000, 120000), ('C04', 8000, 60000), ('C10', 1900, 30000), ('C11', 2300, 30000),
                     ('C13', 1500, 20000), ('C14', 2500, 25000), ('C15', 8000, 80000), ('C16', 3000, 30000),
                     ('C18', 8000, 80000)):
    reg(Prop(_pid, {'quick': _q, 'thorough': _t}, {'quick': 100, 'thorough': 900},
             NT[_pid][1] if _pid in NT else RULE_HIST, nontrivial=NT[_pid][0] if _pid in NT else nt_structure,
             cfg={'thorough': {'all_attrs': True}} if _pid == 'C04' else
             {'quick': {}, 'thorough': {'nsteps_max': 36, 'long_n': 60, 'max_ops': 140}}))


def _c17_extra(prop, tier, seed, agg):
    from . import extras
    return extras.c17_locale(prop, tier, seed, agg)


RULE_C17 = ('one evaluation = one seeded complete score (built by the library from a model-generated tree) with ALL its '
            'fault cases, each executed on a forked copy of the built document: every default encoding x every prior '
            'destination state fault-free; break.node_k for every node and requirement kind; async exceptions at sampled '
            'function entries of write(); SimFS errors at open / each write / close, short writes, ENOSPC, read-only, '
            'directory; distinct = distinct documents (op-list hash); non-trivial = at least one fault fired in its cases')
reg(Prop('C17', {'quick': 400, 'thorough': 6000}, {'quick': 100, 'thorough': 900}, RULE_C17, level='fault_enumeration',
         cfg={'quick': {'max_ops': 400, 'max_size': 30, 'async_points': 4}, 'thorough': {'max_ops': 400, 'max_size': 60, 'async_points': 12}},
         nontrivial=nt_fault_fired, prefix_closed=False, extra=_c17_extra,
         assumptions=['SimFS models open/write/close/replace/remove for the virtual mount /simfs only; tempfile/os.open based implementations are not modelled',
                      'Latin-1 and cp1252 default encodings are emulated by SimFS; only C/POSIX and C.UTF-8 exist as real locales in the image']))


RULE_C09 = ('one evaluation = one pipeline run: a writer (the library itself, or the foreign-writer stub that walks the '
            'reference model) stores a complete score in SimFS, storage faults may rewrite the stored bytes, then '
            'parse_musicxml + to_string; distinct = distinct op lists; non-trivial = a storage fault changed the stored '
            'bytes, or the document came from the foreign writer and has >= 8 elements')


def nt_c09(main):
    s = main['stats']
    return any(k.startswith('fault.disk.') and not k.endswith('.noop') for k in s) or s.get('c09.documents.foreign', 0) > 0


reg(Prop('C09', {'quick': 3000, 'thorough': 40000}, {'quick': 100, 'thorough': 900}, RULE_C09,
         cfg={'quick': {'max_size': 30}, 'thorough': {'max_size': 60, 'big_real': True}}, nontrivial=nt_c09, timeout=180))


RULE_C20 = ('one evaluation = one schedule of one program pair executed in a fresh fork of the cold zygote: thread A '
            'pre-empted at its k-th traced library line with B running to completion in the gap (single-pre-emption '
            'family), or a seeded multi-switch schedule; distinct = distinct switch-point lists (thread, file:line, '
            'per-thread line count); non-trivial = at least one thread switch actually happened inside library code')
reg(Prop('C20', {'quick': 0, 'thorough': 0}, {'quick': 100, 'thorough': 900}, RULE_C20, level='fault_enumeration', mode='threads',
         cfg={'quick': {'pairs': 3, 'k_per_pair': 100, 'pct_per_pair': 20, 'small': True, 'window_cap': 2000, 'triples': 1, 'pct_per_triple': 40}, 'thorough': {'pairs': 6, 'all_k_pairs': 2, 'k_per_pair': 2000, 'pct_per_pair': 400, 'triples': 3, 'pct_per_triple': 300}}))


get('C16').det_sample = 250      # C16 also judges serialisation across hash seeds (determinism across processes)

"""Reference model: an independent reading of the pinned MusicXML 4.0 XSD.

Never imports musicxml.  Built with xml.etree only, from /verif/spec/musicxml_4_0.xsd.

Provides
  * content automata for every element-content complex type (named + 3 anonymous partwise types)
  * element name -> type, type kinds
  * attribute tables (schema names with xml:/xlink: prefixes)
  * value exemplars (certainly valid / certainly invalid) for simple types
"""
import os
import xml.etree.ElementTree as ET
from collections import Counter, deque
from functools import lru_cache

XS = '{http://www.w3.org/2001/XMLSchema}'
HERE = os.path.dirname(os.path.abspath(__file__))
XSD_PATH = os.path.join(os.path.dirname(HERE), 'spec', 'musicxml_4_0.xsd')

_root = ET.parse(XSD_PATH).getroot()
_groups = {g.get('name'): g for g in _root.findall(XS + 'group')}
_ctypes = {c.get('name'): c for c in _root.findall(XS + 'complexType')}
_stypes = {c.get('name'): c for c in _root.findall(XS + 'simpleType')}
_agroups = {c.get('name'): c for c in _root.findall(XS + 'attributeGroup')}


def _tag(n):
    return n.tag[len(XS):] if n.tag.startswith(XS) else n.tag


# ------------------------------------------------------------------ anonymous types
_sp = [e for e in _root.findall(XS + 'element') if e.get('name') == 'score-partwise'][0]
_sp_ct = _sp.find(XS + 'complexType')
_part = [e for e in _sp_ct.iter(XS + 'element') if e.get('name') == 'part'][0]
_part_ct = _part.find(XS + 'complexType')
_meas = [e for e in _part_ct.iter(XS + 'element') if e.get('name') == 'measure'][0]
_meas_ct = _meas.find(XS + 'complexType')
_directive = [e for e in _ctypes['attributes'].iter(XS + 'element') if e.get('name') == 'directive'][0]
_directive_ct = _directive.find(XS + 'complexType')
_ctypes['@score-partwise'] = _sp_ct
_ctypes['@part'] = _part_ct
_ctypes['@measure'] = _meas_ct
_ctypes['@directive'] = _directive_ct

# ------------------------------------------------------------------ element name -> type
ELEM_TYPE = {}


def _collect_elements():
    tw = [e for e in _root.findall(XS + 'element') if e.get('name') == 'score-timewise'][0]
    skip = set(id(x) for x in tw.iter())
    for e in _root.iter(XS + 'element'):
        n = e.get('name')
        if not n or id(e) in skip:
            continue
        t = e.get('type')
        if t is None:
            t = '@' + n
        prev = ELEM_TYPE.get(n)
        assert prev is None or prev == t, (n, prev, t)
        ELEM_TYPE[n] = t


_collect_elements()


# ------------------------------------------------------------------ particles
def _occ(n):
    mi = int(n.get('minOccurs', '1'))
    ma = n.get('maxOccurs', '1')
    ma = None if ma == 'unbounded' else int(ma)
    return mi, ma


_PART = ('element', 'sequence', 'choice', 'group')


def _particle(n):
    tag = _tag(n)
    mi, ma = _occ(n)
    if tag == 'element':
        core = ('el', n.get('name'))
    elif tag == 'sequence':
        core = ('seq', [_particle(c) for c in n if _tag(c) in _PART])
    elif tag == 'choice':
        core = ('cho', [_particle(c) for c in n if _tag(c) in _PART])
    elif tag == 'group':
        g = _groups[n.get('ref')]
        inner = [c for c in g if _tag(c) in ('sequence', 'choice')]
        assert len(inner) == 1
        core = _particle(inner[0])
    else:
        raise ValueError(tag)
    if (mi, ma) == (1, 1):
        return core
    return ('rep', core, mi, ma)


def _content_of_complex(ct):
    for c in ct:
        t = _tag(c)
        if t in ('sequence', 'choice', 'group'):
            return _particle(c)
        if t == 'complexContent':
            ext = c[0]
            base = _ctypes[ext.get('base')]
            b = _content_of_complex(base)
            extra = [_particle(x) for x in ext if _tag(x) in ('sequence', 'choice', 'group')]
            if extra:
                return ('seq', [b] + extra) if b else (extra[0] if len(extra) == 1 else ('seq', extra))
            return b
    return None


class _NFA:
    def __init__(self):
        self.n = 0
        self.eps = {}
        self.tr = {}

    def new(self):
        self.n += 1
        return self.n - 1

    def e(self, a, b):
        self.eps.setdefault(a, set()).add(b)

    def t(self, a, sym, b):
        self.tr.setdefault(a, []).append((sym, b))


def _build(ast, nfa):
    k = ast[0]
    if k == 'el':
        a = nfa.new()
        b = nfa.new()
        nfa.t(a, ast[1], b)
        return a, b
    if k == 'seq':
        a = nfa.new()
        cur = a
        for c in ast[1]:
            x, y = _build(c, nfa)
            nfa.e(cur, x)
            cur = y
        return a, cur
    if k == 'cho':
        a = nfa.new()
        b = nfa.new()
        for c in ast[1]:
            x, y = _build(c, nfa)
            nfa.e(a, x)
            nfa.e(y, b)
        if not ast[1]:
            nfa.e(a, b)
        return a, b
    if k == 'rep':
        _, core, mi, ma = ast
        a = nfa.new()
        cur = a
        for _i in range(mi):
            x, y = _build(core, nfa)
            nfa.e(cur, x)
            cur = y
        if ma is None:
            x, y = _build(core, nfa)
            lp = nfa.new()
            nfa.e(cur, lp)
            nfa.e(lp, x)
            nfa.e(y, lp)
            cur = lp
        else:
            end = nfa.new()
            nfa.e(cur, end)
            for _i in range(ma - mi):
                x, y = _build(core, nfa)
                nfa.e(cur, x)
                cur = y
                nfa.e(cur, end)
            cur = end
        return a, cur
    raise ValueError(k)


class Model:
    """Content model of one complex type as a complete DFA (dead state = -1)."""

    def __init__(self, name, ast):
        self.name = name
        self.ast = ast
        nfa = _NFA()
        start, final = _build(ast, nfa)
        self.alpha = sorted({sym for l in nfa.tr.values() for sym, _ in l})
        # determinise
        def clo(states):
            st = list(states)
            seen = set(states)
            while st:
                q = st.pop()
                for r in nfa.eps.get(q, ()):
                    if r not in seen:
                        seen.add(r)
                        st.append(r)
            return frozenset(seen)
        s0 = clo({start})
        ids = {s0: 0}
        order = [s0]
        self.delta = []  # list of dict sym->state
        i = 0
        while i < len(order):
            S = order[i]
            row = {}
            by = {}
            for q in S:
                for sym, b in nfa.tr.get(q, ()):
                    by.setdefault(sym, set()).add(b)
            for sym in sorted(by):
                T = clo(by[sym])
                if T not in ids:
                    ids[T] = len(order)
                    order.append(T)
                row[sym] = ids[T]
            self.delta.append(row)
            i += 1
        self.final = frozenset(i for i, S in enumerate(order) if final in S)
        self.nstates = len(order)
        # liveness (every DFA state built from a Thompson NFA of a regex without empty
        # languages is live, but compute anyway)
        rev = {}
        for a, row in enumerate(self.delta):
            for sym, b in row.items():
                rev.setdefault(b, set()).add(a)
        live = set(self.final)
        st = list(live)
        while st:
            q = st.pop()
            for r in rev.get(q, ()):
                if r not in live:
                    live.add(r)
                    st.append(r)
        self.live = frozenset(live)
        # free closure: states reachable by any word
        self._reach = {}
        self._ext_cache = {}
        self._arr_cache = {}
        self._maxocc_cache = {}

    # --- basic
    def step(self, q, sym):
        if q < 0:
            return -1
        r = self.delta[q].get(sym, -1)
        return r if r in self.live else -1

    def run(self, word):
        q = 0
        for w in word:
            q = self.step(q, w)
            if q < 0:
                return -1
        return q

    def accepts(self, word):
        return self.run(word) in self.final

    def is_prefix(self, word):
        return self.run(word) >= 0

    def next_symbols(self, word):
        q = self.run(word)
        if q < 0:
            return []
        return [s for s in self.alpha if self.step(q, s) >= 0]

    def reach(self, q):
        r = self._reach.get(q)
        if r is None:
            seen = {q}
            st = [q]
            while st:
                x = st.pop()
                for y in self.delta[x].values():
                    if y not in seen and y in self.live:
                        seen.add(y)
                        st.append(y)
            r = frozenset(seen)
            self._reach[q] = r
        return r

    def _reach_set(self, S):
        out = set()
        for q in S:
            out |= self.reach(q)
        return frozenset(out)

    # --- queries on multisets
    def _maxocc(self, sym):
        """maxocc[q] = the largest number of `sym` transitions on any path from q to a final state
        (capped at 99 = unbounded)."""
        t = self._maxocc_cache.get(sym)
        if t is not None:
            return t
        INF = 99
        n = self.nstates
        val = [0 if q in self.live else -1 for q in range(n)]
        for _round in range(n + 2):
            changed = False
            for q in range(n):
                if q not in self.live:
                    continue
                best = 0 if q in self.final else -1
                for s2, q2 in self.delta[q].items():
                    if q2 in self.live and val[q2] >= 0:
                        v = val[q2] + (1 if s2 == sym else 0)
                        if v > best:
                            best = v
                if best > val[q]:
                    val[q] = min(best, INF)
                    changed = True
            if not changed:
                break
        else:
            # still growing after n+2 rounds: a cycle carries the symbol; propagate "unbounded"
            grow = True
            while grow:
                grow = False
                snapshot = list(val)
                for q in range(n):
                    if q not in self.live:
                        continue
                    for s2, q2 in self.delta[q].items():
                        if q2 in self.live and snapshot[q2] >= 0:
                            v = snapshot[q2] + (1 if s2 == sym else 0)
                            if v > val[q] and val[q] < INF:
                                val[q] = INF
                                grow = True
        self._maxocc_cache[sym] = val
        return val

    def extendable(self, multiset):
        """Is there an accepted word that contains `multiset` as a sub-multiset?
        Search over (DFA state, remaining counts); taking a transition whose symbol is still wanted always
        consumes it (dominance), and a branch is cut as soon as some wanted symbol can no longer occur
        often enough on any path to a final state."""
        key = tuple(sorted(Counter(multiset).items()))
        r = self._ext_cache.get(key)
        if r is not None:
            return r
        for sname, _c in key:
            if sname not in self.alpha:
                self._ext_cache[key] = False
                return False
        syms = [k for k, _c in key]
        mo = [self._maxocc(k) for k in syms]
        start = (0, tuple(c for _k, c in key))
        seen = {start}
        st = [start]
        ok = False
        idx = {k: i for i, k in enumerate(syms)}
        while st:
            q, rem = st.pop()
            if not any(rem):
                ok = True       # q is live: a final state is reachable with free moves
                break
            feasible = True
            for i, c in enumerate(rem):
                if c and mo[i][q] < c:
                    feasible = False
                    break
            if not feasible:
                continue
            nxt_free = []
            for s2, q2 in self.delta[q].items():
                if q2 not in self.live:
                    continue
                i = idx.get(s2)
                if i is not None and rem[i] > 0:
                    node = (q2, rem[:i] + (rem[i] - 1,) + rem[i + 1:])
                    if node not in seen:
                        seen.add(node)
                        st.append(node)          # wanted symbols are explored first (stack: pushed last)
                else:
                    node = (q2, rem)
                    if node not in seen:
                        seen.add(node)
                        nxt_free.append(node)
            # free moves go below the consuming ones on the stack
            st[0:0] = nxt_free
        self._ext_cache[key] = ok
        return ok

    def extendable_slow(self, multiset):
        """Reference implementation (state-set search) kept for the model self-test."""
        key = tuple(sorted(Counter(multiset).items()))
        for s, _c in key:
            if s not in self.alpha:
                return False
        seen = set()
        st = [(self._reach_set({0}), key)]
        while st:
            S, rem = st.pop()
            if (S, rem) in seen:
                continue
            seen.add((S, rem))
            if not rem:
                return True
            for i, (sym, c) in enumerate(rem):
                T = {self.delta[q].get(sym, -1) for q in S}
                T = {t for t in T if t in self.live}
                if not T:
                    continue
                T = self._reach_set(T)
                rem2 = rem[:i] + (((sym, c - 1),) if c > 1 else ()) + rem[i + 1:]
                st.append((T, rem2))
        return False

    def arrangements(self, multiset, limit=5000):
        """All accepted words that are permutations of multiset (as name tuples)."""
        key = tuple(sorted(Counter(multiset).items()))
        r = self._arr_cache.get(key)
        if r is not None:
            return r
        out = []

        def rec(q, rem, acc):
            if len(out) > limit:
                return
            if not rem:
                if q in self.final:
                    out.append(tuple(acc))
                return
            for sym in sorted(rem):
                q2 = self.step(q, sym)
                if q2 >= 0:
                    rem2 = dict(rem)
                    rem2[sym] -= 1
                    if rem2[sym] == 0:
                        del rem2[sym]
                    acc.append(sym)
                    rec(q2, rem2, acc)
                    acc.pop()
        rec(0, dict(key), [])
        self._arr_cache[key] = out
        return out

    def _feasible(self, q, syms, rem, mo):
        for i, c in enumerate(rem):
            if c and mo[i][q] < c:
                return False
        return True

    def arrangeable(self, multiset):
        """Is some permutation of multiset accepted?"""
        key = tuple(sorted(Counter(multiset).items()))
        for sname, _c in key:
            if sname not in self.alpha:
                return False
        syms = [k for k, _c in key]
        mo = [self._maxocc(k) for k in syms]
        start = (0, tuple(c for _k, c in key))
        seen = {start}
        st = [start]
        while st:
            q, rem = st.pop()
            if not any(rem):
                if q in self.final:
                    return True
                continue
            if not self._feasible(q, syms, rem, mo):
                continue
            for i, c in enumerate(rem):
                if c:
                    q2 = self.step(q, syms[i])
                    if q2 >= 0:
                        node = (q2, rem[:i] + (c - 1,) + rem[i + 1:])
                        if node not in seen:
                            seen.add(node)
                            st.append(node)
        return False

    def missing(self, multiset, maxextra=12):
        """A shortest list of extra child names such that multiset+extra is arrangeable, or None.
        0-1 BFS over (state, remaining counts); a wanted symbol is always consumed when taken (dominance), so
        insertions are only tried for symbols that are not wanted any more; infeasible nodes are cut."""
        key = tuple(sorted(Counter(multiset).items()))
        for sname, _c in key:
            if sname not in self.alpha:
                return None
        syms = [k for k, _c in key]
        idx = {k: i for i, k in enumerate(syms)}
        mo = [self._maxocc(k) for k in syms]
        start = (0, tuple(c for _k, c in key))
        dist = {start: (0, None, None)}
        dq = deque([start])
        goal = None
        while dq:
            node = dq.popleft()
            q, rem = node
            d = dist[node][0]
            if not any(rem) and q in self.final:
                goal = node
                break
            if not self._feasible(q, syms, rem, mo):
                continue
            for s2, q2 in sorted(self.delta[q].items()):
                if q2 not in self.live:
                    continue
                i = idx.get(s2)
                if i is not None and rem[i] > 0:
                    n2 = (q2, rem[:i] + (rem[i] - 1,) + rem[i + 1:])
                    if n2 not in dist or dist[n2][0] > d:
                        dist[n2] = (d, node, None)
                        dq.appendleft(n2)
                elif d < maxextra:
                    n2 = (q2, rem)
                    if n2 not in dist:
                        dist[n2] = (d + 1, node, s2)
                        dq.append(n2)
        if goal is None:
            return None
        out = []
        node = goal
        while node is not None:
            _d, prev, sym = dist[node]
            if sym is not None:
                out.append(sym)
            node = prev
        out.reverse()
        return out

    def missing_slow(self, multiset, maxextra=12):
        """Reference implementation kept for the model self-test (length of the result is what matters)."""
        key = tuple(sorted(Counter(multiset).items()))
        for s, _c in key:
            if s not in self.alpha:
                return None
        start = (0, key)
        dist = {start: (0, None, None)}
        dq = deque([start])
        goal = None
        while dq:
            node = dq.popleft()
            q, rem = node
            d = dist[node][0]
            if not rem and q in self.final:
                goal = node
                break
            for i, (sym, c) in enumerate(rem):
                q2 = self.step(q, sym)
                if q2 >= 0:
                    n2 = (q2, rem[:i] + (((sym, c - 1),) if c > 1 else ()) + rem[i + 1:])
                    if n2 not in dist or dist[n2][0] > d:
                        dist[n2] = (d, node, None)
                        dq.appendleft(n2)
            if d < maxextra:
                for sym in self.alpha:
                    q2 = self.step(q, sym)
                    if q2 >= 0:
                        n2 = (q2, rem)
                        if n2 not in dist:
                            dist[n2] = (d + 1, node, sym)
                            dq.append(n2)
        if goal is None:
            return None
        return dist[goal][0]

    def sample_word(self, rng, maxlen=8, stop_p=0.35):
        """A random accepted word (biased to short)."""
        for _try in range(50):
            q = 0
            w = []
            while True:
                if q in self.final and (len(w) >= maxlen or rng.random() < stop_p):
                    return w
                opts = [(s, t) for s, t in sorted(self.delta[q].items()) if t in self.live]
                if not opts:
                    if q in self.final:
                        return w
                    break
                if len(w) >= maxlen:
                    # head for a final state by BFS
                    tail = self._shortest_to_final(q)
                    return w + tail
                s, t = rng.choice(opts)
                w.append(s)
                q = t
        return self._shortest_to_final(0)

    def _shortest_to_final(self, q):
        prev = {q: None}
        dq = deque([q])
        while dq:
            x = dq.popleft()
            if x in self.final:
                out = []
                while prev[x] is not None:
                    x, s = prev[x]
                    out.append(s)
                out.reverse()
                return out
            for s, y in sorted(self.delta[x].items()):
                if y not in prev and y in self.live:
                    prev[y] = (x, s)
                    dq.append(y)
        return []


MODELS = {}
for _name, _ct in _ctypes.items():
    _ast = _content_of_complex(_ct)
    if _ast is not None:
        MODELS[_name] = Model(_name, _ast)


def model_for_element(name):
    """Content model for element `name`, or None (simple / empty content)."""
    return MODELS.get(ELEM_TYPE.get(name))


# ------------------------------------------------------------------ type kinds
def type_kind(tname):
    """'element' | 'simple' (simpleContent or simple type) | 'empty'"""
    if tname in MODELS:
        return 'element'
    if tname in _ctypes:
        ct = _ctypes[tname]
        for c in ct:
            if _tag(c) == 'simpleContent':
                return 'simple'
        return 'empty'
    return 'simple'


def simple_content_type(tname):
    """Name of the simple type that governs the text of an element of type tname (or None)."""
    if tname in _ctypes:
        ct = _ctypes[tname]
        for c in ct:
            if _tag(c) == 'simpleContent':
                return c[0].get('base') if _tag(c[0]) == 'extension' else None
        return None
    return tname


# ------------------------------------------------------------------ attributes
_XLINK = {
    'xlink:href': 'xs:anyURI', 'xlink:type': '#xlink-type', 'xlink:role': 'xs:token', 'xlink:title': 'xs:token',
    'xlink:show': '#xlink-show', 'xlink:actuate': '#xlink-actuate',
    'xml:lang': 'xs:language', 'xml:space': '#xml-space',
}
_EXTRA_ENUMS = {
    '#xlink-type': ['simple'],
    '#xlink-show': ['new', 'replace', 'embed', 'other', 'none'],
    '#xlink-actuate': ['onRequest', 'onLoad', 'other', 'none'],
    '#xml-space': ['default', 'preserve'],
}


def _attrs_of_node(node, out):
    for c in node:
        t = _tag(c)
        if t == 'attribute':
            ref = c.get('ref')
            if ref:
                name = ref
                typ = _XLINK[ref]
            else:
                name = c.get('name')
                typ = c.get('type')
                if typ is None:
                    st = c.find(XS + 'simpleType')
                    typ = '#anon:' + name
                    _anon_simple[typ] = st
            out[name] = {'type': typ, 'required': c.get('use') == 'required', 'fixed': c.get('fixed'),
                         'default': c.get('default')}
        elif t == 'attributeGroup':
            _attrs_of_node(_agroups[c.get('ref')], out)


_anon_simple = {}


@lru_cache(maxsize=None)
def _attrs_of_type(tname):
    out = {}
    ct = _ctypes.get(tname)
    if ct is None:
        return out
    for c in ct:
        t = _tag(c)
        if t in ('simpleContent', 'complexContent'):
            ext = c[0]
            base = ext.get('base')
            if base in _ctypes:
                out.update(_attrs_of_type(base))
            _attrs_of_node(ext, out)
    _attrs_of_node(ct, out)
    return out


def attributes_of_element(name):
    """{schema attribute name: {'type','required','fixed','default'}} for element `name`."""
    return _attrs_of_type(ELEM_TYPE[name])


def py_attr_name(schema_name):
    """The keyword / dot name the library documents for a schema attribute name."""
    return schema_name.split(':')[-1].replace('-', '_')


# ------------------------------------------------------------------ simple types and exemplars
_NUMERIC_BUILTINS = {
    'xs:decimal': ('dec', None, None), 'xs:integer': ('int', None, None),
    'xs:positiveInteger': ('int', 1, None), 'xs:nonNegativeInteger': ('int', 0, None),
}


def _resolve_simple(tname):
    """-> dict(kind=enum|int|dec|string|token|pattern|union|other, ...)"""
    if tname in _EXTRA_ENUMS:
        return {'kind': 'enum', 'values': _EXTRA_ENUMS[tname]}
    if tname in _NUMERIC_BUILTINS:
        k, lo, hi = _NUMERIC_BUILTINS[tname]
        return {'kind': k, 'min': lo, 'max': hi, 'xmin': None, 'xmax': None}
    if tname in ('xs:string',):
        return {'kind': 'string'}
    if tname in ('xs:token',):
        return {'kind': 'token'}
    if tname in ('xs:NMTOKEN',):
        return {'kind': 'nmtoken'}
    if tname in ('xs:ID', 'xs:IDREF'):
        return {'kind': 'ncname'}
    if tname == 'xs:anyURI':
        return {'kind': 'uri'}
    if tname == 'xs:language':
        return {'kind': 'language'}
    if tname == 'xs:date':
        return {'kind': 'date'}
    st = _anon_simple.get(tname)
    if st is None:
        st = _stypes.get(tname)
    if st is None:
        return {'kind': 'other'}
    un = st.find(XS + 'union')
    if un is not None:
        members = (un.get('memberTypes') or '').split()
        res = [_resolve_simple(m) for m in members]
        for inner in un.findall(XS + 'simpleType'):
            r = inner.find(XS + 'restriction')
            enums = [e.get('value') for e in r.findall(XS + 'enumeration')]
            res.append({'kind': 'enum', 'values': enums})
        return {'kind': 'union', 'members': res}
    r = st.find(XS + 'restriction')
    if r is None:
        return {'kind': 'other'}
    base = _resolve_simple(r.get('base'))
    enums = [e.get('value') for e in r.findall(XS + 'enumeration')]
    if enums:
        return {'kind': 'enum', 'values': enums, 'tname': tname}
    pat = r.find(XS + 'pattern')
    if pat is not None:
        return {'kind': 'pattern', 'pattern': pat.get('value'), 'base': base, 'tname': tname}
    if base['kind'] in ('int', 'dec'):
        d = dict(base)
        for f, k in (('minInclusive', 'min'), ('maxInclusive', 'max'), ('minExclusive', 'xmin'), ('maxExclusive', 'xmax')):
            n = r.find(XS + f)
            if n is not None:
                d[k] = float(n.get('value')) if '.' in n.get('value') else int(n.get('value'))
        return d
    ml = r.find(XS + 'minLength')
    if ml is not None and base['kind'] in ('string', 'token'):
        d = dict(base)
        d['minLength'] = int(ml.get('value'))
        return d
    return base


@lru_cache(maxsize=None)
def simple_info(tname):
    return _resolve_simple(tname)


# hand-listed certainly-valid strings for pattern types (checked against the patterns in selftest)
_PATTERN_VALID = {
    'color': ['#000000', '#FF00FF', '#80A1B2C3'],
    'comma-separated-text': ['Arial', 'Times New Roman,serif'],
    'ending-number': ['1', '1, 2', ' '],
    'smufl-accidental-glyph-name': ['accidentalSharp', 'accSagittalFlat'],
    'smufl-coda-glyph-name': ['coda', 'codaSquare'],
    'smufl-lyrics-glyph-name': ['lyricsElision', 'lyricsHyphenBaseline'],
    'smufl-pictogram-glyph-name': ['pictGlsp', 'pictXyl'],
    'smufl-segno-glyph-name': ['segno', 'segnoSerpent1'],
    'smufl-wavy-line-glyph-name': ['wiggleTrill', 'wiggleVibrato'],
    'time-only': ['1', '1,2', '2,3,4'],
    'yyyy-mm-dd': ['2000-01-01', '1999-12-31'],
}


def exemplars(tname):
    """(valid_values, invalid_values) in the Python types the library's API documents.
    Only values whose status is certain."""
    info = simple_info(tname)
    return _exemplars_info(info, tname)


_PATTERN_INVALID = {
    'smufl-accidental-glyph-name': ['noteheadBlack'],
    'smufl-coda-glyph-name': ['noteheadBlack'],
    'smufl-lyrics-glyph-name': ['noteheadBlack'],
    'smufl-pictogram-glyph-name': ['noteheadBlack'],
    'smufl-segno-glyph-name': ['noteheadBlack'],
    'smufl-wavy-line-glyph-name': ['noteheadBlack'],
    'color': ['red', '#12'],
    'yyyy-mm-dd': ['20-1-1'],
    'time-only': ['a,b'],
    'ending-number': ['a'],
}


_ALL_ENUMS = None


def _related_enum_literals(tname, own):
    global _ALL_ENUMS
    if _ALL_ENUMS is None:
        _ALL_ENUMS = {}
        for n, st in _stypes.items():
            r = st.find(XS + 'restriction')
            if r is not None:
                lits = [e.get('value') for e in r.findall(XS + 'enumeration')]
                if lits:
                    _ALL_ENUMS[n] = lits
    if not tname or tname not in _ALL_ENUMS:
        return []
    ownset = set(own)
    out = []
    stem = tname.split('-')[0]
    related = sorted(n for n in _ALL_ENUMS if n != tname and (n.startswith(tname) or tname.startswith(n) or n.split('-')[0] == stem))
    # restrictions of another enumerated type (xs:restriction base="other-enum")
    st = _stypes.get(tname)
    r = st.find(XS + 'restriction') if st is not None else None
    if r is not None and r.get('base') in _ALL_ENUMS:
        related.insert(0, r.get('base'))
    for n in related:
        for lit in _ALL_ENUMS[n]:
            if lit not in ownset and lit not in out:
                out.append(lit)
                break
    return out


def _exemplars_info(info, tname=None):
    k = info['kind']
    if k == 'enum':
        vals = list(info['values'])
        bad = ['__not-a-literal__', 17.5]
        # literals of *related* enumerations (a base type or a sibling with a similar name) that this type lacks:
        # "a value valid for a sibling type" is where a shared or inherited table shows
        for other in _related_enum_literals(info.get('tname') or tname, vals)[:3]:
            bad.append(other)
        return vals, bad
    if k in ('int', 'dec'):
        lo = info.get('min')
        hi = info.get('max')
        xlo = info.get('xmin')
        xhi = info.get('xmax')
        good = []
        bad = ['abc']
        lo_eff = lo if lo is not None else (xlo + 1 if xlo is not None else None)
        hi_eff = hi if hi is not None else (xhi - 1 if xhi is not None else None)
        if lo_eff is None and hi_eff is None:
            good = [1, 3, 12]
        elif lo_eff is not None and hi_eff is None:
            good = [int(lo_eff) + 1, int(lo_eff) + 2, int(lo_eff) + 7]
        elif lo_eff is None:
            good = [int(hi_eff) - 1, int(hi_eff) - 5]
        else:
            mid = (lo_eff + hi_eff) / 2
            good = [int(mid)] if lo_eff <= int(mid) <= hi_eff else []
            if lo_eff <= int(mid) + 1 <= hi_eff:
                good.append(int(mid) + 1)
        if lo is not None:
            bad.append(lo - 3)
        if xlo is not None:
            bad.append(xlo - 3)
        if hi is not None:
            bad.append(hi + 3)
        if xhi is not None:
            bad.append(xhi + 3)
        def inside(v):
            if lo is not None and v < lo:
                return False
            if xlo is not None and v <= xlo:
                return False
            if hi is not None and v > hi:
                return False
            if xhi is not None and v >= xhi:
                return False
            return True
        # boundaries, zero and negatives where the type admits them (falsy / edge values are where slips hide)
        for v in (0, -2, lo, hi):
            if v is not None and inside(v) and v not in good:
                good.append(v)
        if k == 'dec':
            extra = []
            for g in good:
                for v in (g + 0.5, float(g)):
                    if inside(v) and not any(v == x and type(v) is type(x) for x in extra):
                        extra.append(v)
            good = good + extra
        else:
            bad.append((good[0] if good else 1) + 0.5)
            bad.append(float(good[0] if good else 1))       # 4.0 is not in the lexical space of an integer type
        return good, bad
    if k == 'string':
        return ['a', 'hello world', 'Text-1'] + ([] if info.get('minLength') else ['']), []
    if k == 'token':
        return ['a', 'hello world', 'tok-1'] + ([] if info.get('minLength') else ['']), []
    if k == 'nmtoken':
        return ['a1', 'tok-1', 'P1'], ['a b']
    if k == 'ncname':
        return ['a1', 'id-2', 'P1'], ['1 a']
    if k == 'uri':
        return ['a.xml', 'http://example.org/x'], []
    if k == 'language':
        return ['en', 'de', 'en-US'], []
    if k == 'date':
        return ['2000-01-01'], ['x']
    if k == 'pattern':
        key = info.get('tname') or tname
        return list(_PATTERN_VALID.get(key, [])), list(_PATTERN_INVALID.get(key, []))
    if k == 'union':
        good = []
        for m in info['members']:
            g, _b = _exemplars_info(m)
            good.extend(g[:2])
        return good, ['__not-a-literal__ !!']
    return [], []


def element_value_exemplars(name):
    """(valid, invalid) text values for element `name`; ([],[]) where it has no character content."""
    t = ELEM_TYPE[name]
    kind = type_kind(t)
    if kind != 'simple':
        return [], []
    sc = simple_content_type(t)
    if sc is None:
        return [], []
    return exemplars(sc)


ELEMENT_CONTENT_ELEMENTS = sorted(n for n, t in ELEM_TYPE.items() if t in MODELS)
ALL_ELEMENTS = sorted(ELEM_TYPE)


def class_name(elem_name):
    return 'XML' + ''.join(p[0].upper() + p[1:] for p in elem_name.split('-'))


def selftest():
    """Model self-test against the repository's own MusicXML files is done in tools/; here
    only internal consistency."""
    assert len(MODELS) >= 94, len(MODELS)
    import re
    for t, vals in _PATTERN_VALID.items():
        info = simple_info(t)
        assert info['kind'] == 'pattern', (t, info)
    # the pruned searches must agree with the plain reference implementations
    import random
    rng = random.Random(20260927)
    for name, m in sorted(MODELS.items()):
        for _ in range(12):
            if rng.random() < 0.5:
                ms = list(m.sample_word(rng, maxlen=5))
                if ms and rng.random() < 0.6:
                    ms.pop(rng.randrange(len(ms)))
                if rng.random() < 0.3:
                    ms.append(rng.choice(m.alpha))
                rng.shuffle(ms)
            else:
                ms = [rng.choice(m.alpha) for _ in range(rng.randint(0, 4))]
            m._ext_cache.clear()
            assert m.extendable(ms) == m.extendable_slow(ms), ('extendable', name, ms)
            a = m.missing(ms)
            assert (None if a is None else len(a)) == m.missing_slow(ms), ('missing', name, ms)
            assert m.arrangeable(ms) == bool(m.arrangements(ms, limit=2)), ('arrangeable', name, ms)
    return True


if __name__ == '__main__':
    print(len(MODELS), 'models;', len(ELEM_TYPE), 'elements')
    big = sorted(MODELS.values(), key=lambda m: -m.nstates)[:5]
    for m in big:
        print(m.name, m.nstates, len(m.alpha))


def derived_type_pairs():
    """(derived, base) for every simple type that restricts another named simple type of the schema."""
    out = []
    for n, st in sorted(_stypes.items()):
        r = st.find(XS + 'restriction')
        if r is not None and r.get('base') in _stypes:
            out.append((n, r.get('base')))
    return out


def positions_of_type(t):
    """Where a simple type is used: ('value', element) / ('attr', element, attribute)."""
    out = []
    for e in ALL_ELEMENTS:
        et = ELEM_TYPE[e]
        if type_kind(et) == 'simple' and simple_content_type(et) == t:
            out.append(('value', e))
        for a, d in attributes_of_element(e).items():
            if d['type'] == t and not (a.startswith('xlink:') or a in ('xml:space', 'name', 'source', 'xml:lang')):
                out.append(('attr', e, a))
    return out


def complex_extension_pairs():
    """(derived complex type, base complex type, attributes the extension adds) for every complexContent extension."""
    out = []
    for n, ct in sorted(_ctypes.items()):
        for c in ct:
            if _tag(c) == 'complexContent':
                ext = c[0]
                base = ext.get('base')
                if base in _ctypes:
                    added = sorted(set(_attrs_of_type(n)) - set(_attrs_of_type(base)))
                    out.append((n, base, added))
    return out


def elements_of_type(t):
    return [e for e in ALL_ELEMENTS if ELEM_TYPE[e] == t]


def _leaf_counts(ast, acc):
    k = ast[0]
    if k == 'el':
        acc[ast[1]] = acc.get(ast[1], 0) + 1
    elif k in ('seq', 'cho'):
        for c in ast[1]:
            _leaf_counts(c, acc)
    elif k == 'rep':
        _leaf_counts(ast[1], acc)
    return acc


def ambiguous_names(elem_name):
    """Child names that occur at more than one position of the element's content model (where a first-fit matcher
    has to choose a slot and an "intelligent choice" may later move the child)."""
    m = model_for_element(elem_name)
    if m is None:
        return []
    acc = _leaf_counts(m.ast, {})
    return sorted(k for k, v in acc.items() if v > 1)


AMBIGUOUS_ELEMENTS = sorted(e for e in ELEMENT_CONTENT_ELEMENTS if ambiguous_names(e))

"""Extra stages of some checks (run once per check, main side)."""
import hashlib
import json
import os
import shutil
import subprocess
import sys
import tempfile

VERIF = os.path.dirname(os.path.dirname(os.path.abspath(__file__)))
REPO = os.environ.get('DSIM_REPO', '/repo')

LOCALE_SCRIPT = r'''
import sys, json, os
sys.path.insert(0, sys.argv[1])
out = {"stage": "import"}
try:
    import locale
    out["preferred"] = locale.getpreferredencoding(False)
    from musicxml.xmlelement.xmlelement import *
    from musicxml.parser.parser import parse_musicxml
    out["stage"] = "build"
    s = XMLScorePartwise(version="4.0")
    title = sys.argv[3].encode('ascii').decode('unicode_escape')
    s.xml_movement_title = title
    pl = s.add_child(XMLPartList())
    sp = pl.add_child(XMLScorePart(id="P1"))
    sp.add_child(XMLPartName(title))
    p = s.add_child(XMLPart(id="P1"))
    m = p.add_child(XMLMeasure(number="1"))
    text = s.to_string()
    out["stage"] = "write"
    path = sys.argv[2]
    s.write(path)
    data = open(path, "rb").read()
    out["bytes"] = data.hex()
    out["text"] = text
    out["stage"] = "parse"
    t = parse_musicxml(path)
    out["reparsed"] = t.to_string()
    out["stage"] = "done"
except BaseException as e:
    out["exc"] = type(e).__name__
    out["msg"] = str(e)[:200]
print(json.dumps(out))
'''


def run_locale(env_extra, args_extra, title):
    d = tempfile.mkdtemp(prefix='dsim-locale-', dir='/dev/shm' if os.path.isdir('/dev/shm') else None)
    try:
        script = os.path.join(d, 'prog.py')
        with open(script, 'w') as f:
            f.write(LOCALE_SCRIPT)
        env = {k: v for k, v in os.environ.items() if not k.startswith('LC_') and k not in ('LANG', 'PYTHONUTF8', 'PYTHONIOENCODING')}
        env.update(env_extra)
        env['PYTHONDONTWRITEBYTECODE'] = '1'
        cmd = [sys.executable, '-W', 'ignore'] + args_extra + [script, REPO, os.path.join(d, 'out.xml'), title.encode('unicode_escape').decode('ascii')]
        p = subprocess.run(cmd, env=env, capture_output=True, timeout=120)
        try:
            return json.loads(p.stdout.decode('utf-8', 'replace').strip().split('\n')[-1])
        except Exception:
            return {'stage': 'crash', 'exc': 'no-json', 'msg': p.stderr.decode('utf-8', 'replace')[-300:]}
    finally:
        shutil.rmtree(d, ignore_errors=True)


def c17_locale(prop, tier, seed, agg):
    """Import, write and parse in sub-interpreters under the real C/POSIX locale (ASCII default text
    encoding) and under C.UTF-8; outcomes and bytes must be identical."""
    title = 'Prélude Füße 中'
    ref = run_locale({'LC_ALL': 'C.UTF-8'}, [], title)
    c = run_locale({'LC_ALL': 'C', 'PYTHONCOERCECLOCALE': '0'}, ['-X', 'utf8=0'], title)
    viol = []
    decl = '<?xml version="1.0" encoding="UTF-8" standalone="no"?>\n'
    cases = [{'config': 'LC_ALL=C.UTF-8', 'stage': ref.get('stage'), 'exc': ref.get('exc')},
             {'config': 'LC_ALL=C PYTHONCOERCECLOCALE=0 -X utf8=0 (preferred encoding %s)' % c.get('preferred'), 'stage': c.get('stage'), 'exc': c.get('exc')}]

    def rep(clause, detail):
        rd = os.environ.get('DSIM_REPLAYS_DIR') or os.path.join(VERIF, 'replays')
        os.makedirs(rd, exist_ok=True)
        name = 'C17-locale-%s.json' % hashlib.sha256(clause.encode()).hexdigest()[:10]
        path = os.path.join(rd, name)
        with open(path, 'w') as f:
            json.dump({'property': 'C17', 'clause': clause, 'mode': 'locale', 'script': LOCALE_SCRIPT, 'title': title,
                       'observation': {'clause': clause, 'detail': detail}, 'dsim_version': 1}, f, indent=1)
        return {'clause': clause, 'replay': path, 'detail': detail}

    if ref.get('stage') != 'done':
        return {'harness_error': 'reference locale run failed: %r' % ref, 'evaluations': 2}
    if ref['bytes'] != (decl + ref['text']).encode('utf-8').hex():
        viol.append(rep('not-utf8', {'config': 'C.UTF-8'}))
    if c.get('stage') == 'import':
        viol.append(rep('import-fails-under-locale', {'exc': c.get('exc'), 'msg': c.get('msg'), 'preferred': c.get('preferred')}))
    elif c.get('stage') != 'done':
        viol.append(rep('locale-dependent-outcome', {'stage': c.get('stage'), 'exc': c.get('exc'), 'msg': c.get('msg')}))
    else:
        if c['bytes'] != ref['bytes']:
            viol.append(rep('not-utf8' if c['text'] == ref['text'] else 'locale-dependent-outcome', {'config': 'C locale', 'what': 'bytes differ'}))
        elif c.get('reparsed') != ref.get('reparsed'):
            viol.append(rep('locale-dependent-outcome', {'what': 'parse result differs'}))
    return {'violations': viol, 'evaluations': 2, 'samples': cases, 'coverage': {'real_locale_subprocess': cases}}

"""Determinism self-tests (to be extended)."""
def main(argv):
    from . import determinism
    return determinism.main(argv)

"""Thread mode (C20): real OS threads run fixed programs on their own documents; exactly one thread
holds the baton; sys.settrace line events inside the library are the only pre-emption points and the
scheduler decides who runs at each of them.  One schedule = one exactly repeatable execution."""
import os
import random
import sys
import threading

from .world import World

LIBMARK = ('/musicxml/', 'verysimpletree')


class Sched:
    def __init__(self, names, decide, record_hot=False):
        self.names = list(names)
        self.sems = {n: threading.Semaphore(0) for n in names}
        self.alive = set(names)
        self.decide = decide
        self.count = 0
        self.per_thread = {n: 0 for n in names}
        self.log = []          # [line count of the running thread, from, to, file, line, function]
        self.hot = []          # counts of line events inside class-level code (first arg `cls`) of thread 0
        self.record_hot = record_hot
        self.failed = None
        self.seen_lines = set()
        self.first = []

    def start(self, bodies):
        ths = []
        for n in self.names:
            t = threading.Thread(target=self._body, args=(n, bodies[n]), name='dsim-' + n)
            ths.append(t)
        for t in ths:
            t.start()
        self.sems[self.names[0]].release()
        for t in ths:
            t.join()

    def _body(self, name, fn):
        self.sems[name].acquire()
        sys.settrace(self._tr)
        try:
            fn()
        except BaseException as e:      # harness failure inside a thread
            self.failed = '%s: %s' % (type(e).__name__, e)
        finally:
            sys.settrace(None)
            self.alive.discard(name)
            if self.alive:
                nxt = sorted(self.alive)[0]
                self.sems[nxt].release()

    def _tr(self, frame, event, arg):
        fn = frame.f_code.co_filename
        if LIBMARK[0] in fn or LIBMARK[1] in fn:
            return self._loc
        return None

    def _loc(self, frame, event, arg):
        if event == 'line':
            me = threading.current_thread().name[5:]
            self.count += 1
            self.per_thread[me] += 1
            if self.record_hot and me == self.names[0]:
                vn = frame.f_code.co_varnames
                owner = ''
                if vn and vn[0] == 'cls':
                    self.hot.append(self.per_thread[me])
                    c = frame.f_locals.get('cls')
                    owner = getattr(c, '__name__', '')
                elif vn and vn[0] == 'self':
                    owner = type(frame.f_locals.get('self')).__name__
                key = (frame.f_code.co_filename, frame.f_lineno, owner)
                if key not in self.seen_lines:
                    # first execution of this line for this owner class: where lazily initialised state is filled
                    self.seen_lines.add(key)
                    self.first.append(self.per_thread[me])
            nxt = self.decide(self, me, frame)
            if nxt is not None and nxt != me and nxt in self.alive:
                self.log.append([self.per_thread[me], me, nxt, os.path.basename(frame.f_code.co_filename), frame.f_lineno,
                                 frame.f_code.co_name])
                self.sems[nxt].release()
                self.sems[me].acquire()
        return self._loc


def make_decider(schedule, names):
    kind = schedule.get('kind', 'none')
    if kind == 'none':
        return lambda s, me, fr: None
    if kind == 'single':
        # pre-empt the first thread at its k-th library line; the others run to completion in the gap
        k = schedule['k']
        fired = [False]
        first = names[0]

        def d(s, me, fr):
            if not fired[0] and me == first and s.per_thread[me] == k:
                fired[0] = True
                return names[1]
            return None
        return d
    if kind == 'list':
        # explicit switch points: [[per-thread count of the running thread, thread that runs, to], ...]
        sw = [tuple(x) for x in schedule['switches']]
        idx = [0]

        def d(s, me, fr):
            if idx[0] < len(sw):
                c, who, to = sw[idx[0]]
                if me == who and s.per_thread[me] == c:
                    idx[0] += 1
                    return to
            return None
        return d
    if kind == 'pct':
        rng = random.Random(schedule['seed'])
        p = schedule.get('p', 0.0005)
        p_hot = schedule.get('p_hot', 0.02)
        left = [schedule.get('depth', 4)]

        def d(s, me, fr):
            if left[0] <= 0:
                return None
            vn = fr.f_code.co_varnames
            hot = bool(vn) and vn[0] == 'cls'
            if rng.random() < (p_hot if hot else p):
                others = sorted(x for x in s.alive if x != me)
                if others:
                    left[0] -= 1
                    return rng.choice(others)
            return None
        return d
    raise ValueError(kind)


def run_threads(job, lib):
    """job: programs (list of op lists, each on its own documents), schedule, canary (op list)."""
    programs = job['programs']
    names = ['T%d' % i for i in range(len(programs))]
    worlds = {}
    sched = Sched(names, make_decider(job.get('schedule') or {}, names), record_hot=job.get('record_hot', False))
    bodies = {}
    for n, prog in zip(names, programs):
        w = World(lib, {'light': True, 'budget': False})
        worlds[n] = w

        def body(w=w, prog=prog):
            for op in prog:
                w.execute(op)
        bodies[n] = body
    sched.start(bodies)
    out = {'threads': {n: worlds[n].events for n in names}, 'switches': sched.log, 'lines': sched.count,
           'per_thread_lines': sched.per_thread, 'failed': sched.failed}
    if job.get('record_hot'):
        out['hot'] = sched.hot
        out['first'] = sched.first
    if job.get('canary'):
        wc = World(lib, {'light': True, 'budget': False})
        for op in job['canary']:
            wc.execute(op)
        out['canary'] = wc.events
        out['tables'] = shared_tables(lib, job.get('classes') or [])
    import hashlib
    import json
    out['digest'] = hashlib.sha256(json.dumps([out['threads'], out['switches'], out.get('canary')], sort_keys=True,
                                              default=str).encode()).hexdigest()
    return out


def shared_tables(lib, class_names):
    """Attribute names per touched class, read through the documented class-level accessor."""
    from . import spec
    out = {}
    for n in class_names:
        try:
            cls = lib.cls(n)
            out[n] = sorted(str(a.name) for a in cls.TYPE.get_xsd_attributes())
        except BaseException as e:
            out[n] = '!' + type(e).__name__
    return out

"""Thread mode (C20): real OS threads run fixed programs on their own documents; exactly one thread
holds the baton; sys.settrace line events inside the library are the only pre-emption points and the
scheduler decides who runs at each of them.  One schedule = one exactly repeatable execution."""
import os
import random
import sys
import threading

from .world import World

LIBMARK = ('/musicxml/', 'verysimpletree')


class Sched:
    def __init__(self, names, decide, record_hot=False):
        self.names = list(names)
        self.sems = {n: threading.Semaphore(0) for n in names}
        self.alive = set(names)
        self.decide = decide
        self.count = 0
        self.per_thread = {n: 0 for n in names}
        self.log = []          # [line count of the running thread, from, to, file, line, function]
        self.hot = []          # counts of line events inside class-level code (first arg `cls`) of thread 0
        self.record_hot = record_hot
        self.failed = None
        self.seen_lines = set()
        self.first = []
        self.frames = {}
        self.windows = []
        self._quiet_now = False
        self.invocations = []
        self.phase = 0

    def start(self, bodies):
        ths = []
        for n in self.names:
            t = threading.Thread(target=self._body, args=(n, bodies[n]), name='dsim-' + n)
            ths.append(t)
        for t in ths:
            t.start()
        self.sems[self.names[0]].release()
        for t in ths:
            t.join()

    def quiet(self):
        """True when the schedule has no switch left: nobody needs pre-emption points any more, tracing stops."""
        ex = getattr(self.decide, 'exhausted', None)
        return bool(ex and ex()) and not self.record_hot

    def _body(self, name, fn):
        self.sems[name].acquire()
        if not self.quiet():
            sys.settrace(self._tr)
        try:
            fn()
        except BaseException as e:      # harness failure inside a thread
            self.failed = '%s: %s' % (type(e).__name__, e)
        finally:
            sys.settrace(None)
            self.alive.discard(name)
            if self.alive:
                nxt = sorted(self.alive)[0]
                self.sems[nxt].release()

    def _tr(self, frame, event, arg):
        fn = frame.f_code.co_filename
        if LIBMARK[0] in fn or LIBMARK[1] in fn:
            if self.record_hot:
                vn = frame.f_code.co_varnames
                oid = None
                if vn and vn[0] in ('self', 'cls'):
                    oid = id(frame.f_locals.get(vn[0]))
                self.frames[id(frame)] = [[], False, oid, frame.f_code.co_name, frame.f_code.co_filename]
            return self._loc
        return None

    def _loc(self, frame, event, arg):
        if self._quiet_now:
            return None
        if event == 'line':
            me = threading.current_thread().name[5:]
            self.count += 1
            self.per_thread[me] += 1
            if self.record_hot and me == self.names[0]:
                vn = frame.f_code.co_varnames
                owner = ''
                if vn and vn[0] == 'cls':
                    self.hot.append(self.per_thread[me])
                    c = frame.f_locals.get('cls')
                    owner = getattr(c, '__name__', '')
                elif vn and vn[0] == 'self':
                    owner = type(frame.f_locals.get('self')).__name__
                key = (frame.f_code.co_filename, frame.f_lineno, owner)
                fr = self.frames.get(id(frame))
                if fr is not None:
                    fr[0].append(self.per_thread[me])
                if key not in self.seen_lines:
                    # first execution of this line for this owner class: where lazily initialised state is filled.
                    # The whole invocation it belongs to becomes a window (loop iterations included).
                    self.seen_lines.add(key)
                    self.first.append(self.per_thread[me])
                    if fr is not None:
                        fr[1] = True
            nxt = self.decide(self, me, frame)
            if nxt is not None and nxt != me and nxt in self.alive:
                self.log.append([self.per_thread[me], me, nxt, os.path.basename(frame.f_code.co_filename), frame.f_lineno,
                                 frame.f_code.co_name])
                self.sems[nxt].release()
                self.sems[me].acquire()
                if self.quiet():
                    self._quiet_now = True
                    sys.settrace(None)
                    return None
        elif event == 'return' and self.record_hot:
            fr = self.frames.pop(id(frame), None)
            if fr is not None and threading.current_thread().name[5:] == self.names[0]:
                if fr[1]:
                    self.windows.extend(fr[0][:40])
                if fr[2] is not None and fr[0]:
                    self.invocations.append((fr[2], fr[3], fr[4], fr[0][:16], self.phase))
        return self._loc


def make_decider(schedule, names):
    kind = schedule.get('kind', 'none')
    if kind == 'none':
        return lambda s, me, fr: None
    if kind == 'single':
        # pre-empt the first thread at its k-th library line; the others run to completion in the gap
        k = schedule['k']
        fired = [False]
        first = names[0]

        def d(s, me, fr):
            if not fired[0] and me == first and s.per_thread[me] == k:
                fired[0] = True
                return names[1]
            return None
        d.exhausted = lambda: fired[0]
        return d
    if kind == 'list':
        # explicit switch points: [[per-thread count of the running thread, thread that runs, to], ...]
        sw = [tuple(x) for x in schedule['switches']]
        idx = [0]

        def d(s, me, fr):
            if idx[0] < len(sw):
                c, who, to = sw[idx[0]]
                if me == who and s.per_thread[me] == c:
                    idx[0] += 1
                    return to
            return None
        d.exhausted = lambda: idx[0] >= len(sw)
        return d
    if kind == 'pct':
        rng = random.Random(schedule['seed'])
        p = schedule.get('p', 0.0005)
        p_hot = schedule.get('p_hot', 0.02)
        left = [schedule.get('depth', 4)]

        def d(s, me, fr):
            if left[0] <= 0:
                return None
            vn = fr.f_code.co_varnames
            hot = bool(vn) and vn[0] == 'cls'
            if rng.random() < (p_hot if hot else p):
                others = sorted(x for x in s.alive if x != me)
                if others:
                    left[0] -= 1
                    return rng.choice(others)
            return None
        d.exhausted = lambda: left[0] <= 0
        return d
    raise ValueError(kind)


def run_threads(job, lib):
    """job: programs (list of op lists, each on its own documents), schedule, canary (op list)."""
    programs = job['programs']
    names = ['T%d' % i for i in range(len(programs))]
    worlds = {}
    keep = []
    sched = Sched(names, make_decider(job.get('schedule') or {}, names), record_hot=job.get('record_hot', False))
    bodies = {}
    for n, prog in zip(names, programs):
        w = World(lib, {'light': True, 'budget': False})
        worlds[n] = w

        def body(w=w, prog=prog):
            for op in prog:
                w.execute(op)
            if job.get('record_hot'):
                # second pass on fresh documents (same process): tells shared objects from per-document ones
                sched.lines_pass1 = sched.per_thread[sched.names[0]]
                sched.phase = 1
                w2 = World(lib, {'light': True, 'budget': False})
                for op in prog:
                    w2.execute(op)
                keep.append(w2)
        bodies[n] = body
    sched.start(bodies)
    out = {'threads': {n: worlds[n].events for n in names}, 'switches': sched.log, 'lines': sched.count,
           'per_thread_lines': sched.per_thread, 'failed': sched.failed}
    if job.get('record_hot'):
        out['hot'] = sched.hot
        # shared objects = objects that serve as self/cls in both passes of the program (pass 2 is the same
        # program on fresh documents); the first invocation of each method on each shared object is a window
        p1 = {}
        p2 = set()
        for oid, name, fn, counts, phase in sched.invocations:
            if phase == 0:
                p1.setdefault((oid, name, fn), counts)
            else:
                p2.add(oid)
        shared = []
        for (oid, name, fn), counts in p1.items():
            if oid in p2:
                shared.extend(counts)
        out['first'] = sorted(set(sched.first) | set(sched.windows))
        out['shared_first'] = sorted(set(shared))
        out['lines_pass1'] = getattr(sched, 'lines_pass1', None)
    if job.get('canary'):
        wc = World(lib, {'light': True, 'budget': False})
        for op in job['canary']:
            wc.execute(op)
        out['canary'] = wc.events
        out['tables'] = shared_tables(lib, job.get('classes') or [])
    import hashlib
    import json
    out['digest'] = hashlib.sha256(json.dumps([out['threads'], out['switches'], out.get('canary')], sort_keys=True,
                                              default=str).encode()).hexdigest()
    return out


def shared_tables(lib, class_names):
    """Attribute names per touched class, read through the documented class-level accessor."""
    from . import spec
    out = {}
    for n in class_names:
        try:
            cls = lib.cls(n)
            out[n] = sorted(str(a.name) for a in cls.TYPE.get_xsd_attributes())
        except BaseException as e:
            out[n] = '!' + type(e).__name__
    return out

"""Self-tests: determinism of runs (same seed twice in one zygote, in another zygote, under another
PYTHONHASHSEED in a fresh interpreter), known-finding witnesses still reproduce, fixed witnesses do not,
rare-branch probes are not stuck at zero.  Exit 2 on any failure (harness fault, never a VIOLATION)."""
import glob
import json
import os
import subprocess
import sys

from . import runner, props, judges, known
from .gen import hash64

VERIF = os.path.dirname(os.path.dirname(os.path.abspath(__file__)))
REPO = os.environ.get('DSIM_REPO', '/repo')


def digests(prop, idxs, base=0, env=None):
    P = props.get(prop)
    z = runner.Zygote(REPO, env=env)
    out = {}
    try:
        for i in idxs:
            seed = hash64(base, prop, i)
            r = z.run({'mode': P.mode, 'property': prop, 'seed': seed, 'index': i, 'cfg': P.cfg.get('quick', {}), 'opts': P.opts,
                       'timeout': P.timeout})
            out[i] = r['digest'] + ':' + (json.dumps(r.get('schedule'))[:0] if False else '') + str(len(r['ops']))
    finally:
        z.close()
    return out


def main(argv):
    n = int(argv[0]) if argv else 12
    bad = 0
    plist = props.claimed()
    for prop in plist:
        if props.get(prop).mode != 'gen':
            continue
        idxs = list(range(n))
        a = digests(prop, idxs)
        b = digests(prop, idxs)                                   # another zygote process
        c = digests(prop, idxs, env={'PYTHONHASHSEED': '12345'})  # another hash seed, fresh interpreter
        same = (a == b == c)
        print('determinism %s: %d seeds x 3 (two zygotes, PYTHONHASHSEED=0/12345): %s' % (prop, n, 'identical' if same else 'MISMATCH'))
        if not same:
            bad += 1
            for i in idxs:
                if not (a[i] == b[i] == c[i]):
                    print('   index', i, a[i][:16], b[i][:16], c[i][:16])
    # witnesses
    kf = known.load()
    for f in kf['findings']:
        rep = json.load(open(os.path.join(VERIF, f['witness'])))
        if rep.get('mode') == 'threads' or props.get(rep['property']).replay:
            continue
        _m, viol = judges.evaluate(rep['property'], rep['ops'], REPO, rep.get('opts'))
        ok = any(v['clause'] == rep['clause'] for v in viol)
        if not ok:
            print('witness %s no longer reproduces (finding should be re-examined)' % f['witness'])
            bad += 1
    for f in kf.get('fixed', []):
        w = f.get('witness')
        if not w or not os.path.exists(os.path.join(VERIF, w)):
            continue
        rep = json.load(open(os.path.join(VERIF, w)))
        if rep.get('mode') == 'threads' or props.get(rep['property']).replay:
            continue
        _m, viol = judges.evaluate(rep['property'], rep['ops'], REPO, rep.get('opts'))
        if any(v['clause'] == rep['clause'] for v in viol):
            print('fixed witness %s reproduces again' % w)
            bad += 1
    runner.close_all()
    print('selftest', 'FAILED' if bad else 'ok')
    return 2 if bad else 0

"""Twin oracles: the same library, run on a derived history in another pristine fork.
Each function: (prop, ops, main_result, zygote, opts) -> list of violations."""

TWINS = {}

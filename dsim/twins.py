"""Twin oracles: the same library, run on a derived history in another pristine fork.
Each function: (prop, ops, main_result, zygote, opts) -> list of violations.

Twins are exact because the library is deterministic; they need no model."""
import json


def _strip(ev):
    return {k: v for k, v in ev.items() if k not in ('i',)}


def _replay(z, prop, ops, opts):
    o = dict(opts or {})
    o['twin'] = True
    return z.run({'mode': 'replay', 'property': prop, 'ops': ops, 'opts': o})


def _first_diff(main_ops, main_events, twin_ops, twin_events):
    """Compare events of the ops present in both (by 'id').  -> (position in main, main ev, twin ev) or None"""
    pos = {op['id']: i for i, op in enumerate(main_ops)}
    for op, evt in zip(twin_ops, twin_events):
        i = pos[op['id']]
        evm = main_events[i] if i < len(main_events) else None
        if evm is None:
            continue
        a, b = _strip(evm), _strip(evt)
        if a != b:
            return i, a, b
    return None


def _diff_keys(a, b):
    """Which parts of two OBS payloads differ (for a readable detail)."""
    out = []
    va, vb = a.get('v'), b.get('v')
    if isinstance(va, dict) and isinstance(vb, dict):
        for k in sorted(set(va) | set(vb)):
            if va.get(k) != vb.get(k):
                out.append(k)
    return out


def _short(x, n=400):
    s = json.dumps(x, sort_keys=True, default=str)
    return s if len(s) <= n else s[:n] + '...'


# ---------------------------------------------------------------------------------- C10: erasure of failed calls
def twin_erase_failed(prop, ops, main, z, opts):
    ev = main['events']
    failed = [i for i, e in enumerate(ev) if e['r'] == 'exc' and ops[i]['op'] not in ('OBS',)]
    if not failed:
        return []
    keep = [op for i, op in enumerate(ops) if i >= len(ev) or ev[i]['r'] != 'exc']
    twin = _replay(z, prop, keep, opts)
    d = _first_diff(ops, ev, keep, twin['events'])
    if d is None:
        return []
    i, a, b = d
    prev_failed = [j for j in failed if j < i]
    culprit = ops[prev_failed[-1]] if prev_failed else None
    kind = culprit['op'] if culprit else '?'
    if ops[i]['op'] == 'OBS':
        clause = 'state-changed-by-failed-call'
        detail = {'failed_op': kind, 'failed_at': prev_failed[-1] if prev_failed else None, 'differs': _diff_keys(a, b),
                  'with_failed_call': _short(_pick(a, b)[0]), 'without': _short(_pick(a, b)[1])}
    else:
        clause = 'later-outcome-differs-after-failed-call'
        detail = {'failed_op': kind, 'failed_at': prev_failed[-1] if prev_failed else None, 'op': ops[i]['op'],
                  'with_failed_call': _short(a), 'without': _short(b)}
    return [{'property': prop, 'clause': clause, 'at': i, 'detail': detail}]


def _pick(a, b):
    va, vb = a.get('v'), b.get('v')
    if isinstance(va, dict) and isinstance(vb, dict):
        ks = [k for k in sorted(set(va) | set(vb)) if va.get(k) != vb.get(k)]
        return {k: va.get(k) for k in ks}, {k: vb.get(k) for k in ks}
    return a, b


# ---------------------------------------------------------------------------------- C16: erasure of reader ops
def twin_erase_readers(prop, ops, main, z, opts):
    ev = main['events']
    readers = [i for i, op in enumerate(ops) if op.get('reader')]
    if not readers:
        return []
    keep = [op for op in ops if not op.get('reader')]
    twin = _replay(z, prop, keep, opts)
    d = _first_diff(ops, ev, keep, twin['events'])
    if d is None:
        return []
    i, a, b = d
    prev = [j for j in readers if j < i]
    ics = sorted({bool(ops[j].get('ic')) for j in prev if ops[j]['op'] in ('TO_STRING', 'CHECK')})
    kinds = sorted({ops[j]['op'] + ('[ic]' if ops[j].get('ic') else '') for j in prev})
    clause = 'read-changed-later-result[ic]' if True in ics else 'read-changed-later-result'
    detail = {'reads_before': kinds, 'op': ops[i]['op'], 'differs': _diff_keys(a, b),
              'with_reads': _short(_pick(a, b)[0]), 'without': _short(_pick(a, b)[1])}
    return [{'property': prop, 'clause': clause, 'at': i, 'detail': detail}]


def twin_erase_earlier_readers(prop, ops, main, z, opts):
    """Second C16 twin: keep the last serialising read, erase every earlier read; the kept read must return
    what it returned in the full history (a read must not change a later *read* either)."""
    ev = main['events']
    ser = [i for i, op in enumerate(ops) if op.get('reader') and op['op'] in ('TO_STRING', 'CHECK') and i < len(ev)]
    if len(ser) < 1:
        return []
    last = ser[-1]
    earlier = [i for i, op in enumerate(ops) if op.get('reader') and i < last]
    if not earlier:
        return []
    keep = [op for i, op in enumerate(ops) if not (op.get('reader') and i != last)]
    twin = _replay(z, prop, keep, opts)
    pos = {op['id']: k for k, op in enumerate(keep)}
    k = pos[ops[last]['id']]
    if k >= len(twin['events']):
        return []
    a, b = _strip(ev[last]), _strip(twin['events'][k])
    if a == b:
        return []
    kinds = sorted({ops[j]['op'] + ('[ic]' if ops[j].get('ic') else '') for j in earlier})
    ic = any(ops[j].get('ic') for j in earlier if ops[j]['op'] in ('TO_STRING', 'CHECK'))
    clause = 'read-changed-later-result[ic]' if ic else 'read-changed-later-result'
    return [{'property': prop, 'clause': clause, 'at': last,
             'detail': {'reads_before': kinds, 'op': ops[last]['op'] + ('[ic]' if ops[last].get('ic') else ''), 'later_is_a_read': True,
                        'with_reads': _short(a), 'without': _short(b)}}]


def twin_c16(prop, ops, main, z, opts):
    return twin_erase_readers(prop, ops, main, z, opts) + twin_erase_earlier_readers(prop, ops, main, z, opts)


# ---------------------------------------------------------------------------------- C13 / C14: projection
def _doc_of(op):
    if 'p' in op:
        return op['p'][0]
    return op.get('doc')


def lineage(ops, doc):
    """Ops of one document: its own operations plus, for copies / parsed documents, the source's
    operations up to the point of derivation."""
    derive = {}
    uses = {}           # doc -> [(other doc it reads, op index)]: cross-document fault ops ('attached' in another doc)
    for i, op in enumerate(ops):
        if op['op'] == 'DEEPCOPY':
            derive[op['doc']] = (op['p'][0], i)
        att = op.get('attached')
        if att and 'p' in op and att[0] != op['p'][0]:
            uses.setdefault(op['p'][0], []).append((att[0], i))
    need = {}

    def add(d, upto, depth=0):
        if need.get(d, -1) >= upto or depth > 6:
            return
        need[d] = max(need.get(d, -1), upto)
        if d in derive:
            src, i = derive[d]
            add(src, min(i, upto), depth + 1)
        for other, i in uses.get(d, []):
            if i <= upto:
                add(other, i, depth + 1)
    add(doc, len(ops))
    out = []
    for i, op in enumerate(ops):
        if op['op'] in ('FAULT',):
            out.append(op)
            continue
        d = _doc_of(op)
        if op['op'] == 'DEEPCOPY':
            # belongs to the copy's lineage (reads the source)
            if op['doc'] in need and i <= need[op['doc']]:
                out.append(op)
            continue
        if d in need and i <= need[d]:
            out.append(op)
    return out


def twin_projection(prop, ops, main, z, opts):
    ev = main['events']
    docs = []
    for op in ops:
        d = op.get('doc') if op['op'] in ('NEW', 'DEEPCOPY', 'PARSE') else None
        if d and d not in docs:
            docs.append(d)
    if len(docs) < 2:
        return []
    out = []
    for d in docs:
        sub = lineage(ops, d)
        if len(sub) == len(ops):
            continue
        twin = _replay(z, prop, sub, opts)
        diff = _first_diff(ops, ev, sub, twin['events'])
        if diff is None:
            continue
        i, a, b = diff
        is_canary = str(d).startswith('canary')
        if prop == 'C14':
            clause = 'copy-not-independent'
        elif is_canary:
            clause = 'fresh-instance-differs'
        elif ops[i]['op'] == 'OBS':
            clause = 'other-instance-changed'
        else:
            clause = 'outcome-depends-on-neighbour'
        out.append({'property': prop, 'clause': clause, 'at': i,
                    'detail': {'doc': d, 'op': ops[i]['op'], 'differs': _diff_keys(a, b),
                               'together': _short(_pick(a, b)[0]), 'alone': _short(_pick(a, b)[1])}})
        break
    return out


TWINS = {
    'C10': twin_erase_failed,
    'C16': twin_c16,
    'C13': twin_projection,
    'C14': twin_projection,
}

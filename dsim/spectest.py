"""Self-test of the reference model against real MusicXML files shipped in the repository: every
child sequence and attribute occurring in them must be accepted by the model."""
import glob
import os
import xml.etree.ElementTree as ET

from . import spec

XML_NS = '{http://www.w3.org/XML/1998/namespace}'
XLINK_NS = '{http://www.w3.org/1999/xlink}'


def schema_attr(k):
    if k.startswith(XML_NS):
        return 'xml:' + k[len(XML_NS):]
    if k.startswith(XLINK_NS):
        return 'xlink:' + k[len(XLINK_NS):]
    return k


def check_tree(root, where):
    bad = []
    for e in root.iter():
        if e.tag not in spec.ELEM_TYPE:
            bad.append((where, 'unknown element', e.tag))
            continue
        m = spec.model_for_element(e.tag)
        word = [k.tag for k in e]
        if m is not None:
            if not m.accepts(word):
                bad.append((where, e.tag, word))
        elif word:
            bad.append((where, e.tag, 'children on non-element-content type', word))
        table = spec.attributes_of_element(e.tag)
        for k in e.attrib:
            if schema_attr(k) not in table:
                bad.append((where, e.tag, 'attribute', k))
    return bad


def against_repo_files(repo=None):
    repo = repo or os.environ.get('DSIM_REPO', '/repo')
    files = [os.path.join(repo, 'musicxml', f) for f in (
        'parser/test_bach_partita_3.xml', 'parser/test_bach_partita_3_reduced.xml', 'parser/test_hello_world.xml',
        'profiler/parser_test.xml')]
    files = [f for f in files if os.path.exists(f)]
    bad = []
    n = 0
    for f in files:
        try:
            root = ET.parse(f).getroot()
        except ET.ParseError:
            continue
        if root.tag != 'score-partwise':
            continue
        n += 1
        bad.extend(check_tree(root, os.path.basename(f)))
    return bad

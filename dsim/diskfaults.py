"""Storage faults applied to the stored bytes between WRITE and PARSE (deterministic functions of
their parameters; the generator draws the parameters from the run's PRNG)."""
import re


def apply(kind, data, p):
    n = len(data)
    if n == 0:
        return data
    if kind == 'disk.truncate':
        return data[:p['offset'] % n]
    if kind == 'disk.flip':
        o = p['offset'] % n
        return data[:o] + bytes([data[o] ^ (1 << (p.get('bit', 0) % 8))]) + data[o + 1:]
    sec = max(16, p.get('sector', 128))
    nsec = (n + sec - 1) // sec
    if kind == 'disk.zero_sector':
        i = p['index'] % nsec
        return data[:i * sec] + b'\x00' * min(sec, n - i * sec) + data[(i + 1) * sec:]
    if kind == 'disk.dup_sector':
        i = p['index'] % nsec
        return data[:(i + 1) * sec] + data[i * sec:(i + 1) * sec] + data[(i + 1) * sec:]
    if kind == 'disk.swap_sectors':
        i, j = sorted((p['index'] % nsec, p['index2'] % nsec))
        if i == j:
            return data
        a, b = data[i * sec:(i + 1) * sec], data[j * sec:(j + 1) * sec]
        return data[:i * sec] + b + data[(i + 1) * sec:j * sec] + a + data[(j + 1) * sec:]
    if kind == 'disk.recode':
        try:
            return data.decode('utf-8').encode(p['to'], 'replace')
        except UnicodeDecodeError:
            return data
    if kind == 'disk.redeclare':
        # not damage: the same document as another tool would store it, declared and encoded in p['to']
        try:
            text = data.decode('utf-8')
        except UnicodeDecodeError:
            return data
        if 'encoding="UTF-8"' not in text[:100]:
            return data
        text = text.replace('encoding="UTF-8"', 'encoding="%s"' % p['to'].upper(), 1)
        return text.encode(p['to'], 'xmlcharrefreplace')
    if kind == 'disk.token_rot':
        return token_rot(data, p)
    raise ValueError(kind)


_TAG = re.compile(rb'<([A-Za-z][A-Za-z0-9\-]*)((?:\s+[A-Za-z:][A-Za-z0-9:\-]*="[^"<]*")*)\s*(/?)>')
_ATTR = re.compile(rb'\s+([A-Za-z:][A-Za-z0-9:\-]*)="([^"<]*)"')
_TEXT = re.compile(rb'>([^<>]*[^<>\s][^<>]*)<')


def _rot(b, k):
    """Replace one byte of b (position k mod len) by another name character."""
    if not b:
        return b
    i = k % len(b)
    c = b[i:i + 1]
    pool = b'abcdefghijklmnopqrstuvwxyz0123456789'
    r = pool[(pool.find(c.lower()) + 1 + k) % len(pool):][:1] if c.lower() in pool else b'x'
    if r == c:
        r = b'q'
    return b[:i] + r + b[i + 1:]


def token_rot(data, p):
    """Rewrite one character inside a tag name (start and end tag alike), an attribute name, an
    attribute value or a text node, keeping the document well-formed in most cases."""
    what = p.get('what', 'text')
    k = p.get('k', 0)
    if what == 'tag':
        tags = list(_TAG.finditer(data))
        if not tags:
            return data
        m = tags[p.get('index', 0) % len(tags)]
        name = m.group(1)
        new = _rot(name, k)
        # rename this start tag and its matching end tag (nearest following with the same name at equal depth)
        start = m.start(1)
        out = data[:start] + new + data[m.end(1):]
        if m.group(3) == b'/':
            return out
        depth = 0
        pos = m.end()
        pat = re.compile(rb'<(/?)' + re.escape(name) + rb'(?=[\s/>])[^>]*?(/?)>')
        off = len(new) - len(name)
        for mm in pat.finditer(data, pos):
            if mm.group(1) == b'/':
                if depth == 0:
                    s = mm.start() + 2 + off
                    return out[:s] + new + out[s + len(name):]
                depth -= 1
            elif mm.group(2) != b'/':
                depth += 1
        return out
    if what in ('attr-name', 'attr-value'):
        attrs = list(_ATTR.finditer(data))
        if not attrs:
            return data
        m = attrs[p.get('index', 0) % len(attrs)]
        g = 1 if what == 'attr-name' else 2
        return data[:m.start(g)] + _rot(m.group(g), k) + data[m.end(g):]
    texts = list(_TEXT.finditer(data))
    if not texts:
        return data
    m = texts[p.get('index', 0) % len(texts)]
    return data[:m.start(1)] + _rot(m.group(1), k) + data[m.end(1):]
